"""Exact / high-precision evaluation of the quantities the library hashes, and
their distance to a decimal rounding boundary (DESIGN 3.2, A.6)."""
from decimal import Decimal, getcontext
from fractions import Fraction as F

from . import exactspec as X

getcontext().prec = 60


def _dec(fr):
    return Decimal(fr.numerator) / Decimal(fr.denominator)


def boundary_distance(q, digits):
    """distance, in rounding steps (0..0.5), of q*10^digits from the nearest
    half-integer, i.e. from the nearest point where round(q, digits) flips."""
    if isinstance(q, F):
        u = q * (F(10) ** digits)
        fracp = u - (u.numerator // u.denominator)
        return float(abs(fracp - F(1, 2)))
    u = q * (Decimal(10) ** digits)
    fracp = u - u.to_integral_value(rounding="ROUND_FLOOR")
    return float(abs(fracp - Decimal("0.5")))


def unit(v):
    """unit vector of an exact vector as 60-digit Decimals"""
    n2 = sum(x * x for x in v)
    l = _dec(n2).sqrt()
    return [_dec(x) / l for x in v]


def hashed_quantities(spec):
    """every quantity the library rounds when hashing the object a spec denotes
    (and its parts): exact Fractions where rational, Decimals otherwise"""
    t = spec["t"]
    out = []
    if t in ("Point", "Vector"):
        out += list(X.vec(spec["p"]))
    elif t == "Line":
        a, d = X.carrier(spec)
        out += [d[0], d[1], d[0] * a[1] - d[1] * a[0]]
    elif t == "Plane":
        a, n = X.carrier(spec)
        out += _plane_q(a, n)
    elif t == "Segment":
        a, d = X.carrier(spec)
        out += list(a) + list(X.add(a, d))
    elif t == "HalfLine":
        a, d = X.carrier(spec)
        out += list(a) + unit(d)
    elif t == "ConvexPolygon":
        vs = X.vertices(spec)
        for p in vs:
            out += list(p)
        n = X.features(spec)["normals"]
        if n:
            out += _plane_q(vs[0], n[0])
    elif t == "ConvexPolyhedron":
        if spec.get("form") == "faces":
            allp = [X.vec(p) for p in spec["pts"]]
            seen = []
            for p in allp:
                if p not in seen:
                    seen.append(p)
            for p in seen:
                out += list(p)
            faces = [[allp[i] for i in f] for f in spec["faces"]]
        else:
            vs = X.vertices(spec)
            for p in vs:
                out += list(p)
            faces = [[vs[i] for i in X.order_face(vs, f)] for f in X.hull_faces(vs)]
        for f in faces:
            n = None
            for i in range(1, len(f) - 1):
                n = X.cross(X.sub(f[i], f[0]), X.sub(f[i + 1], f[0]))
                if not X.is_zero(n):
                    break
            # the library orients face normals outwards; the sign only permutes
            # hash(plane) and hash(-plane), rounding boundaries are symmetric
            out += _plane_q(f[0], n)
    return out


def _plane_q(a, n):
    u = unit(n)
    off = sum(ui * _dec(ai) for ui, ai in zip(u, a))
    return list(u) + [off]


def admissible_hash(spec, digits=10, margin_steps=0.005):
    """True iff no hashed quantity lies within margin (in rounding steps) of a
    rounding boundary: 5e-13 absolute at 10 digits = 0.005 steps."""
    for q in hashed_quantities(spec):
        if boundary_distance(q, digits) < margin_steps:
            return False
    return True


def float_near_boundary(x, digits=10, margin_steps=0.005):
    """same test for a float the library produced (result coordinates)"""
    return boundary_distance(F(x), digits) < margin_steps
