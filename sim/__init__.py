"""Deterministic simulation harness for Geometry3D (see /verif/DESIGN.md)."""
