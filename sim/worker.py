"""Worker: one fresh interpreter = one PYTHONHASHSEED. Executes histories for a
machine and writes JSON lines; also replay / shrink / trace modes."""
import faulthandler
import hashlib
import importlib
import json
import os
import random
import sys
import time

from . import seeds

MACHINES = {
    "C07": "sim.machines.c07_move",
    "C19": "sim.machines.c19_tolerance",
    "C20": "sim.machines.c20_ownership",
}


def machine(prop):
    return importlib.import_module(MACHINES[prop])


def ops_digest(history):
    return hashlib.sha256(json.dumps(history, sort_keys=True).encode()).hexdigest()[:16]


def merge(tot, stats):
    for k, v in stats.items():
        tot[k] = tot.get(k, 0) + v


def generate(prop, vseed, k, tier):
    m = machine(prop)
    rs = seeds.run_seed(vseed, prop, k)
    hist = m.generate(random.Random(rs), k, tier)
    hist["k"] = k
    hist["run_seed"] = rs
    return hist


def mode_run(job, out):
    from .libenv import lib, source_digest

    prop = job["property"]
    m = machine(prop)
    lib()
    tot = {}
    n = 0
    nontrivial = set()
    shapes = set()
    steps = 0
    samples = []
    t0 = time.time()
    tracer = None
    if job.get("trace"):
        from .reach import Tracer

        tracer = Tracer(prop)
    for k in job["indices"]:
        hist = generate(prop, job["verif_seed"], k, job["tier"])
        if tracer:
            tracer.start()
        try:
            r = m.execute(hist, {"float_digest": bool(job.get("emit_chain"))})
        finally:
            if tracer:
                tracer.stop()
        n += 1
        steps += r["steps"]
        merge(tot, r["stats"])
        dg = ops_digest(hist)
        if r["nontrivial"]:
            nontrivial.add(dg)
        shapes.add(r["shape"])
        line = {"k": k, "run_seed": hist["run_seed"], "ops": dg, "chain": r["chain"], "nv": len(r["violations"])}
        if job.get("emit_chain"):
            line["detail_digest"] = r.get("float_digest")
        out.write(json.dumps({"type": "run", **line}) + "\n")
        if r["violations"]:
            out.write(json.dumps({"type": "violation", "k": k, "history": hist, "violations": r["violations"], "chain": r["chain"]}) + "\n")
        if len(samples) < job.get("samples", 1) and r["nontrivial"]:
            samples.append({"k": k, "run_seed": hist["run_seed"], "history": hist, "events": r["events"][:40], "violations": len(r["violations"])})
    out.write(
        json.dumps(
            {
                "type": "summary",
                "worker": job["worker"],
                "hash_seed": os.environ.get("PYTHONHASHSEED"),
                "n": n,
                "steps": steps,
                "stats": tot,
                "nontrivial": sorted(nontrivial),
                "shapes": sorted(shapes),
                "samples": samples,
                "wall_s": time.time() - t0,
                "source_digest": source_digest(),
                "python": sys.version.split()[0],
                "reach": tracer.report() if tracer else None,
            }
        )
        + "\n"
    )


def mode_exec(job, out):
    """execute explicit histories (replay); never re-runs the generator"""
    from .libenv import lib, source_digest

    prop = job["property"]
    m = machine(prop)
    lib()
    for hist in job["histories"]:
        r = m.execute(hist)
        out.write(json.dumps({"type": "exec", "chain": r["chain"], "violations": r["violations"], "events": r["events"], "detail": r.get("detail", []), "stats": r["stats"], "source_digest": source_digest()}, default=str) + "\n")


def mode_shrink(job, out):
    from .libenv import lib
    from .shrink import shrink

    prop = job["property"]
    m = machine(prop)
    lib()
    hist, r, info = shrink(m, job["history"], job["sig"], job.get("budget_s", 20.0))
    out.write(json.dumps({"type": "shrunk", "history": hist, "result": None if r is None else {"chain": r["chain"], "violations": r["violations"], "events": r["events"]}, "info": info}, default=str) + "\n")


def main(argv=None):
    argv = argv or sys.argv[1:]
    with open(argv[0]) as f:
        job = json.load(f)
    faulthandler.enable()
    faulthandler.dump_traceback_later(job.get("watchdog_s", 900), exit=True)
    with open(job["out"], "w") as out:
        mode = job.get("mode", "run")
        if mode == "run":
            mode_run(job, out)
        elif mode == "exec":
            mode_exec(job, out)
        elif mode == "shrink":
            mode_shrink(job, out)
        else:
            raise SystemExit("unknown mode %r" % mode)
        out.write(json.dumps({"type": "done"}) + "\n")
    faulthandler.cancel_dump_traceback_later()
    return 0
