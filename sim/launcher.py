"""Launcher: spawns fresh interpreters (one PYTHONHASHSEED each), merges their
results, shrinks and replays violations, writes evidence (DESIGN 3.1-3.6, A.9).

exit 0  property held on everything explored (KNOWN-FINDING lines allowed)
exit 1  at least one "VIOLATION property=<ID> replay=<path>" line
exit 2  "HARNESS-ERROR <what>"
"""
import json
import os
import re
import shutil
import subprocess
import sys
import time

from . import seeds

VERIF = os.path.dirname(os.path.dirname(os.path.abspath(__file__)))
WORKER = os.path.join(VERIF, "sim", "worker_main.py")
NPROC = int(os.environ.get("VERIF_PROCS", "0")) or min(16, os.cpu_count() or 4)

# histories per tier, number of distinct hash seeds (workers), watchdog seconds
TIERS = {
    "C07": {"quick": (1920, 16, 600), "thorough": (46080, 64, 3600)},
    "C19": {"quick": (3072, 16, 600), "thorough": (122880, 64, 3600)},
    "C20": {"quick": (10240, 16, 600), "thorough": (327680, 64, 3600)},
}
TRACE_RUNS = {"C07": 12, "C19": 24, "C20": 96}  # histories executed by the traced (reach-probe) worker
BLOCK = 16  # consecutive run indices (one full subject-type rotation) per deal

RULES = {
    "C07": "One case = one seeded move history on one subject (type by k mod 16 over all seven types and constructor forms): 1-6 MOVEs interleaved with OBSERVE (probe battery on receiver, returned object and deep copies against a twin freshly built at the translated spec), DEEPCOPY, CHAIN (continue on the returned object) and SWITCH_TO_COPY. Non-trivial = the op list contains at least one MOVE followed later by an OBSERVE; distinct = distinct sha256 of the full op list (subject spec, vectors, probes).",
    "C19": "One case = one seeded configuration history: set_eps/set_sig_figures calls interleaved with construction of catalogue objects and eps/1000-displaced companions, getter checks, near/far comparisons, batteries and excursions. Non-trivial = at least one CHECK executed while a non-default configuration was in force; distinct = distinct sha256 of the full op list.",
    "C20": "One case = one seeded shared-heap history: leaves and groups of shared Points/Vectors/polygons, composite constructions from them, queries over ordered type pairs, in-place mutations of leaves and composites, deep copies, re-asks and cold replays, with whole-world snapshots around every step. Non-trivial = at least one BUILD from a shared leaf followed by a mutation of that leaf or a QUERY, followed by a snapshot comparison; distinct = distinct sha256 of the full op list.",
}


class HarnessError(Exception):
    pass


def _env(hash_seed):
    env = dict(os.environ)
    env["PYTHONHASHSEED"] = str(hash_seed)
    env["PYTHONDONTWRITEBYTECODE"] = "1"
    env.pop("PYTHONPATH", None)
    return env


def spawn(workdir, name, job, hash_seed, timeout_s):
    jf = os.path.join(workdir, name + ".job.json")
    job = dict(job)
    job["out"] = os.path.join(workdir, name + ".out.jsonl")
    job["watchdog_s"] = timeout_s
    with open(jf, "w") as f:
        json.dump(job, f)
    err = open(os.path.join(workdir, name + ".err"), "w")
    p = subprocess.Popen(
        ["timeout", "-k", "10", str(timeout_s + 30), sys.executable, WORKER, jf],
        env=_env(hash_seed), stdout=err, stderr=err, cwd=VERIF,
    )
    return {"name": name, "proc": p, "out": job["out"], "err": err, "errpath": err.name, "hash_seed": hash_seed, "job": job}


def run_jobs(workdir, jobs, timeout_s):
    """jobs: list of (name, job, hash_seed); at most NPROC at a time"""
    pending = list(jobs)
    running, done = [], []
    while pending or running:
        while pending and len(running) < NPROC:
            name, job, hs = pending.pop(0)
            running.append(spawn(workdir, name, job, hs, timeout_s))
        time.sleep(0.05)
        still = []
        for r in running:
            rc = r["proc"].poll()
            if rc is None:
                still.append(r)
                continue
            r["err"].close()
            r["rc"] = rc
            done.append(r)
        running = still
    out = {}
    for r in done:
        recs = []
        ok = False
        if os.path.exists(r["out"]):
            with open(r["out"]) as f:
                for line in f:
                    try:
                        recs.append(json.loads(line))
                    except ValueError:
                        pass
            ok = bool(recs) and recs[-1].get("type") == "done"
        if r["rc"] != 0 or not ok:
            tail = ""
            try:
                with open(r["errpath"]) as f:
                    tail = f.read()[-1500:]
            except OSError:
                pass
            raise HarnessError("worker %s failed (rc=%s, complete=%s): %s" % (r["name"], r["rc"], ok, tail.strip().replace("\n", " | ")))
        out[r["name"]] = {"records": recs, "hash_seed": r["hash_seed"]}
    return out


def worker_of(k, nworkers):
    return (k // BLOCK) % nworkers


def load_known():
    p = os.path.join(VERIF, "known_findings.json")
    if not os.path.exists(p):
        return []
    with open(p) as f:
        return json.load(f).get("findings", [])


def sig_slug(sig):
    return re.sub(r"[^A-Za-z0-9]+", "-", sig).strip("-")


def write_replay(prop, vseed, hist, hash_seed, violation, chain, src, note=None):
    d = os.path.join(os.environ.get("VERIF_REPLAY_DIR") or os.path.join(VERIF, "replays"), prop)
    os.makedirs(d, exist_ok=True)
    path = os.path.join(d, "%s-%s.json" % (hist.get("run_seed", 0), sig_slug(violation["sig"])))
    with open(path, "w") as f:
        json.dump(
            {
                "property": prop,
                "verif_seed": vseed,
                "run_seed": hist.get("run_seed"),
                "k": hist.get("k"),
                "python_hash_seed": hash_seed,
                "python": sys.version.split()[0],
                "source_digest": src,
                "history": hist,
                "violation": violation,
                "expected_chain": chain,
                "note": note,
            },
            f, indent=1, sort_keys=True, default=str,
        )
    return path


def exec_history(workdir, name, prop, hist, hash_seed, timeout_s=300):
    res = run_jobs(workdir, [(name, {"mode": "exec", "property": prop, "histories": [hist]}, hash_seed)], timeout_s)
    return [r for r in res[name]["records"] if r["type"] == "exec"][0]


def replay(prop, path):
    with open(path) as f:
        rp = json.load(f)
    workdir = _workdir(prop + "-replay")
    try:
        r = exec_history(workdir, "replay", prop, rp["history"], rp["python_hash_seed"])
    finally:
        shutil.rmtree(workdir, ignore_errors=True)
    want = rp["violation"]
    hit = [v for v in r["violations"] if v["sig"] == want["sig"] and v["step"] == want["step"]]
    print("replay %s: chain %s (expected %s)" % (path, r["chain"][:16], str(rp.get("expected_chain"))[:16]))
    for e in r["events"]:
        print("  event " + e[:200])
    if hit:
        v = hit[0]
        print("  violation step=%s inv=%s sig=%s query=%s shape=%s" % (v["step"], v["inv"], v["sig"], v["query"], v["shape"]))
        print("  info " + json.dumps(v.get("info"), default=str)[:1500])
        same_chain = r["chain"] == rp.get("expected_chain")
        print("  chain identical to recorded: %s" % same_chain)
        print("VIOLATION property=%s replay=%s" % (prop, path))
        return 1
    print("replay did not reproduce the recorded violation (violations now: %s)" % [v["sig"] for v in r["violations"]])
    return 0


def _workdir(tag):
    d = os.path.join(VERIF, ".work", "%s-%d-%d" % (tag, os.getpid(), int(time.time() * 1000) % 100000))
    os.makedirs(d, exist_ok=True)
    return d


def merge(tot, stats):
    for k, v in stats.items():
        tot[k] = tot.get(k, 0) + v


def run_check(prop, tier):
    t0 = time.time()
    vseed = seeds.verif_seed()
    runs, nworkers, watchdog = TIERS[prop][tier]
    if os.environ.get("VERIF_RUNS"):
        runs = int(os.environ["VERIF_RUNS"])
    print("check %s tier=%s VERIF_SEED=%d runs=%d hash_seeds=%d procs=%d repo=%s" % (prop, tier, vseed, runs, nworkers, NPROC, os.environ.get("VERIF_REPO", "/repo")))
    sys.stdout.flush()
    workdir = _workdir(prop)
    evidence = {"property_id": prop, "tier": tier, "seed": vseed, "level": "exploration", "coverage": {}, "assumptions": [], "wall_s": 0.0, "violations": 0}
    harness_errors = []
    rc = 0
    vio_lines, known_lines = [], []
    try:
        by_worker = {}
        for k in range(runs):
            by_worker.setdefault(worker_of(k, nworkers), []).append(k)
        jobs = []
        trace_worker = min(by_worker)
        for w, idx in sorted(by_worker.items()):
            job = {"mode": "run", "property": prop, "verif_seed": vseed, "tier": tier, "indices": idx, "worker": w, "samples": 1 if w < 3 else 0}
            jobs.append(("w%03d" % w, job, seeds.hash_seed(vseed, prop, w)))
        # miniature determinism self-test: one block twice under the same hash
        # seed, once under another one
        mini = list(range(BLOCK))
        hs_a, hs_c = seeds.hash_seed(vseed, prop, "det-a"), seeds.hash_seed(vseed, prop, "det-c")
        for nm, hs in (("detA", hs_a), ("detB", hs_a), ("detC", hs_c)):
            jobs.append((nm, {"mode": "run", "property": prop, "verif_seed": vseed, "tier": tier, "indices": mini, "worker": -1, "emit_chain": True}, hs))
        # reach probe: one small traced worker
        jobs.append(("trace", {"mode": "run", "property": prop, "verif_seed": vseed, "tier": tier, "indices": list(range(BLOCK, BLOCK + TRACE_RUNS[prop] * (4 if tier == "thorough" else 1))), "worker": -2, "trace": True}, seeds.hash_seed(vseed, prop, trace_worker)))
        res = run_jobs(workdir, jobs, watchdog)

        det = _determinism_verdict(res)
        if det["same_seed_chain_mismatch"] or det["ops_mismatch"]:
            raise HarnessError("non-deterministic execution: %s" % json.dumps(det))

        tot, n, steps = {}, 0, 0
        nontrivial, shapes, samples, srcs = set(), set(), [], set()
        violations = []
        worker_wall = []
        for name, r in sorted(res.items()):
            if not name.startswith("w"):
                continue
            for rec in r["records"]:
                if rec["type"] == "summary":
                    n += rec["n"]
                    steps += rec["steps"]
                    merge(tot, rec["stats"])
                    nontrivial.update(rec["nontrivial"])
                    shapes.update(rec["shapes"])
                    samples += rec["samples"]
                    srcs.add(rec["source_digest"])
                    worker_wall.append(rec["wall_s"])
                elif rec["type"] == "violation":
                    rec["hash_seed"] = r["hash_seed"]
                    violations.append(rec)
        reach = None
        for rec in res["trace"]["records"]:
            if rec["type"] == "summary":
                reach = rec.get("reach")
        if len(srcs) != 1:
            raise HarnessError("workers saw different source trees: %s" % sorted(srcs))
        src = sorted(srcs)[0]

        # ---- violations: group by signature, known findings, shrink, replay
        known = [k for k in load_known() if k.get("property") == prop and k.get("status") == "known"]
        by_sig = {}
        for rec in violations:
            for v in rec["violations"]:
                by_sig.setdefault(v["sig"], []).append((rec, v))
        budget = 20.0 if tier == "quick" else 120.0
        todo = []
        for sig in sorted(by_sig):
            cases = by_sig[sig]
            kf = [k for k in known if k.get("signature") == sig]
            nhist = len(set(c[0]["k"] for c in cases))
            if kf:
                known_lines.append("KNOWN-FINDING: property=%s %s [signature %s, %d histories]" % (prop, kf[0].get("what", ""), sig, nhist))
                continue
            rec, v = min(cases, key=lambda c: (len(c[0]["history"]["ops"]), c[0]["k"]))
            todo.append({"sig": sig, "rec": rec, "v": v, "nhist": nhist, "hist": rec["history"], "chain": rec["chain"], "note": None})
        # minimise (at most 8 signatures, in parallel), then confirm each result in a fresh process
        mins = todo[:8]
        if mins:
            try:
                sres = run_jobs(workdir, [("shrink%d" % i, {"mode": "shrink", "property": prop, "history": t["rec"]["history"], "sig": t["sig"], "budget_s": budget}, t["rec"]["hash_seed"]) for i, t in enumerate(mins)], int(budget) + 240)
                conf_jobs = []
                for i, t in enumerate(mins):
                    sh = [x for x in sres["shrink%d" % i]["records"] if x["type"] == "shrunk"][0]
                    t["shrunk"] = sh
                    if sh["result"] is not None:
                        conf_jobs.append(("confirm%d" % i, {"mode": "exec", "property": prop, "histories": [sh["history"]]}, t["rec"]["hash_seed"]))
                    else:
                        t["note"] = "shrinker could not reproduce: %s" % json.dumps(sh["info"])
                        harness_errors.append(t["note"] + " sig=" + t["sig"])
                cres = run_jobs(workdir, conf_jobs, 300) if conf_jobs else {}
                for i, t in enumerate(mins):
                    if "confirm%d" % i not in cres:
                        continue
                    sh = t["shrunk"]
                    cand_v = [x for x in sh["result"]["violations"] if x["sig"] == t["sig"]][0]
                    conf = [r for r in cres["confirm%d" % i]["records"] if r["type"] == "exec"][0]
                    if any(x["sig"] == t["sig"] and x["step"] == cand_v["step"] for x in conf["violations"]):
                        t["hist"], t["v"], t["chain"] = sh["history"], cand_v, conf["chain"]
                        t["note"] = "minimised: %s" % json.dumps(sh["info"])
                    else:
                        t["note"] = "minimised trace did not reproduce in a fresh process; unminimised trace reported"
                        harness_errors.append(t["note"] + " sig=" + t["sig"])
            except HarnessError as e:
                harness_errors.append("shrink failed: %s" % e)
        for t in todo:
            path = write_replay(prop, vseed, t["hist"], t["rec"]["hash_seed"], t["v"], t["chain"], src, t["note"])
            vio_lines.append("VIOLATION property=%s replay=%s" % (prop, path))
            print("  violation %s: %d histories, e.g. k=%s query=%s shape=%s" % (t["sig"], t["nhist"], t["rec"]["k"], t["v"]["query"], t["v"]["shape"]))
        rc = 1 if vio_lines else 0

        wall = time.time() - t0
        cov = {
            "evaluations": n,
            "distinct_nontrivial": len(nontrivial),
            "rule": RULES[prop],
            "samples": samples[:3],
            "logical_steps": steps,
            "simulated_time": "none: the library has no clock; logical steps are the only time there is",
            "histories_per_hour": int(n / max(wall, 1e-9) * 3600),
            "steps_per_hour": int(steps / max(wall, 1e-9) * 3600),
            "hash_seeds_used": len(by_worker),
            "distinct_history_shapes": len(shapes),
            "counters": {k: v for k, v in sorted(tot.items()) if not k.startswith("cell:") and not k.startswith("state:")},
            "distinct_abstract_states": sum(1 for k in tot if k.startswith("state:")),
            "abstract_state_measure": STATE_MEASURE[prop],
            "interference_fired": _interference(prop, tot, len(by_worker)),
            "cells": _cells(tot),
            "determinism_miniature": det,
            "reach": reach,
            "violating_histories": len(violations),
            "violation_signatures": {s: len(set(x[0]["k"] for x in c)) for s, c in sorted(by_sig.items())},
            "known_findings_printed": known_lines,
            "harness_errors": harness_errors,
            "source_digest": src,
            "repo": os.environ.get("VERIF_REPO", "/repo"),
            "worker_wall_s_max": max(worker_wall) if worker_wall else 0,
            "components": {"real": ["all of Geometry3D as imported from the working tree (nothing stubbed)"], "stubbed": []},
        }
        evidence["coverage"] = cov
        evidence["violations"] = len(vio_lines)
        evidence["assumptions"] = ASSUMPTIONS[prop]
        evidence["wall_s"] = round(wall, 2)
    except HarnessError as e:
        rc = 2
        harness_errors.append(str(e))
        print("HARNESS-ERROR %s" % e)
        evidence["coverage"] = {"evaluations": 0, "distinct_nontrivial": 0, "rule": RULES[prop], "samples": [], "harness_errors": harness_errors}
        evidence["wall_s"] = round(time.time() - t0, 2)
    finally:
        shutil.rmtree(workdir, ignore_errors=True)
        try:
            os.rmdir(os.path.join(VERIF, ".work"))
        except OSError:
            pass
    evdir = os.environ.get("VERIF_EVIDENCE_DIR") or os.path.join(VERIF, "evidence")
    os.makedirs(evdir, exist_ok=True)
    with open(os.path.join(evdir, prop + ".json"), "w") as f:
        json.dump(evidence, f, indent=1, sort_keys=True, default=str)
    for l in known_lines:
        print(l)
    for l in vio_lines:
        print(l)
    c = evidence["coverage"]
    print("%s %s: %s histories, %s distinct non-trivial, %s steps, wall %.1fs, exit %d" % (prop, tier, c.get("evaluations"), c.get("distinct_nontrivial"), c.get("logical_steps"), evidence["wall_s"], rc))
    return rc


STATE_MEASURE = {
    "C07": "distinct (subject type, constructor form, moves so far, at origin?, return value live?, copies held, op kind) tuples seen after a step",
    "C19": "distinct (type, digits when A was built, digits when A' was built, digits at check, displacement exponent k, moved?) tuples of asserted near-pairs",
    "C20": "distinct (query, operand types and kinds, operand mutation counts capped at 2, outcome class) tuples of executed queries",
}


def _interference(prop, tot, nseeds):
    g = lambda k: tot.get(k, 0)
    pre = lambda p: sum(v for k, v in tot.items() if k.startswith(p))
    if prop == "C07":
        return {"chained-receiver": g("chained"), "switch-to-copy": g("switched"), "deepcopy-then-diverge (copies observed at another t)": g("copies_diverged_observed"), "exception-path (queries that raise, compared by class)": g("exception_path_queries"), "return-to-earlier-position": g("I4_round_trips"), "superseded handles observed": g("observations_of_superseded_handles"), "self-overlap moves": g("move_kind:self_overlap"), "unit-axis moves on the small-integer family": g("move_kind:unit_axis"), "hash-order (distinct PYTHONHASHSEED values)": nseeds, "moves": g("op:MOVE")}
    if prop == "C19":
        return {"config-change (setter calls)": pre("setter:"), "config-change between construction and check (asserted pairs)": g("J2_pairs_built_under_other_config"), "excursions (leave and restore a configuration)": g("excursions_completed"), "in-place move under non-default configuration": g("pairs_moved"), "non-power-of-ten settings": g("setter:set_eps(nonpower)"), "who-runs: setter or check executed in a helper thread": g("executed_in:thread"), "who-runs: setter or check executed in a copied context": g("executed_in:context"), "large bodies built between checks": g("big_builds"), "hash-order (distinct PYTHONHASHSEED values)": nseeds}
    return {"alias-mutation (in-place mutations)": g("op:MUTATE"), "alias-mutation of a leaf with live dependents": g("mutations_of_leaf_with_live_dependents"), "exception-path (raising queries bracketed by snapshots)": g("raising_queries"), "cold replays (history erased)": g("cold_replays"), "re-asks": g("K3_reasks"), "deep copies": g("op:DEEPCOPY"), "internal edits through public attributes": pre("mutate:ConvexPolygon:internal") + pre("mutate:ConvexPolyhedron:internal") + pre("mutate:Segment:internal") + pre("mutate:HalfLine:internal") + pre("mutate:Line:internal") + pre("mutate:Plane:internal"), "move return values kept in the heap (K6)": g("K6_checks"), "hash-order (distinct PYTHONHASHSEED values)": nseeds}


def _cells(tot):
    cells = {}
    for k, v in tot.items():
        if k.startswith("cell:"):
            cells[k[5:]] = v
    return dict(sorted(cells.items()))


def _determinism_verdict(res):
    def runs(name):
        return {r["k"]: r for r in res[name]["records"] if r["type"] == "run"}

    a, b, c = runs("detA"), runs("detB"), runs("detC")
    mism = [k for k in a if a[k]["chain"] != b[k]["chain"]]
    opsm = [k for k in a if a[k]["ops"] != c[k]["ops"] or a[k]["ops"] != b[k]["ops"]]
    div = [k for k in a if a[k]["chain"] != c[k]["chain"]]
    sens = [k for k in a if a[k].get("detail_digest") != c[k].get("detail_digest")]
    return {
        "runs": len(a),
        "same_seed_chain_mismatch": mism,
        "ops_mismatch": opsm,
        "hashseed_discrete_divergence": div,
        "hashseed_sensitive_runs": len(sens),
    }


ASSUMPTIONS = {
    "C07": [
        "freshly constructed objects (the twin) are the reference: construction itself is C09/C14 territory and is only cross-checked by a second and third equivalent construction",
        "inputs restricted to the property's lattice domain; probes are exactly incident or at least a quarter lattice unit away",
        "sampled, bounded histories (<= 6 moves); a clean batch is evidence, not proof",
    ],
    "C19": [
        "catalogue objects restricted to the rational frames the property prescribes; pairs admitted by exact rounding-boundary distance",
        "sampled, bounded configuration histories",
    ],
    "C20": [
        "snapshots are generic over __dict__: state kept outside instance attributes (module globals, closures) would not be seen",
        "sampled, bounded histories (<= 40 steps, <= 14 objects)",
    ],
}


def main(argv=None):
    argv = list(sys.argv[1:] if argv is None else argv)
    if not argv:
        print(__doc__)
        return 2
    if argv[0] == "setup":
        from .libenv import lib, source_digest

        lib()
        print("setup ok: python %s, Geometry3D sources %s" % (sys.version.split()[0], source_digest()[:16]))
        return 0
    if argv[0] == "selftest-determinism":
        from .selftest import determinism

        return determinism(argv[1:])
    if argv[0] == "selftest-replays":
        from .selftest import replays

        return replays(argv[1:])
    if argv[0] == "selftest-mutants":
        from .selftest import mutants

        return mutants(argv[1:])
    prop = argv[0]
    if prop not in TIERS:
        print("unknown property %r" % prop)
        return 2
    if len(argv) >= 3 and argv[1] == "--replay":
        return replay(prop, argv[2])
    tier = argv[1] if len(argv) > 1 else os.environ.get("VERIF_TIER", "quick")
    if tier not in ("quick", "thorough"):
        print("unknown tier %r" % tier)
        return 2
    return run_check(prop, tier)
