"""Exact specs -> library objects through the public constructors (DESIGN A.2)."""
from fractions import Fraction as F

from . import exactspec as X
from .libenv import lib


def num(x, ints=False):
    x = X.fr(x)
    if ints and x.denominator == 1:
        return int(x)
    return float(x)


def nums(a, ints=False):
    return [num(x, ints) for x in a]


def P(a, ints=False, form="xyz"):
    G = lib()
    c = nums(a, ints)
    if form == "list":
        return G.Point(c)
    if form == "vec":
        return G.Point(G.Vector(*c))
    return G.Point(*c)


def V(a, ints=False):
    return lib().Vector(*nums(a, ints))


def build(spec, alt=0):
    """construct the object a spec denotes.

    alt=0: the constructor form named by the spec;
    alt=1: a different but equivalent construction of the same point set;
    alt=2: rebuilt from the accessor outputs of the alt=0 object.
    """
    G = lib()
    t, form, ints = spec["t"], spec.get("form"), spec.get("ints", False)
    if alt == 2:
        return _from_accessors(build(spec, 0))
    if t == "Point":
        if alt == 1:
            return P(spec["p"], False, "list" if form != "list" else "xyz")
        return P(spec["p"], ints, form)
    if t == "Vector":
        return V(spec["p"], ints)
    if t == "Line":
        a, d = X.carrier(spec)
        if alt == 1:
            a2 = X.add(a, X.mul(F(-1), d))
            return G.Line(P(X.add(a, d)), P(a2))
        if form == "PP":
            return G.Line(P(spec["a"], ints), P(spec["b"], ints))
        if form == "PV":
            return G.Line(P(spec["a"], ints), V(spec["b"], ints))
        return G.Line(V(spec["a"], ints), V(spec["b"], ints))
    if t == "Plane":
        a, n = X.carrier(spec)
        if alt == 1:
            e1, e2 = X.inplane_basis(n)
            return G.Plane(P(X.add(a, e1)), V(X.mul(F(-2), n)))
        if form == "PV":
            return G.Plane(P(spec["a"], ints), V(spec["n"], ints))
        if form == "PPP":
            return G.Plane(P(spec["a"], ints), P(spec["b"], ints), P(spec["c"], ints))
        if form == "PVV":
            return G.Plane(P(spec["a"], ints), V(spec["u"], ints), V(spec["w"], ints))
        nn = nums(spec["n"], ints)
        return G.Plane(nn[0], nn[1], nn[2], num(spec["d"], ints))
    if t in ("Segment", "HalfLine"):
        cls = getattr(G, t)
        a, d = X.carrier(spec)
        if alt == 1:
            if t == "Segment":
                return cls(P(X.add(a, d)), P(a))
            return cls(P(a), V(X.mul(F(2), d)))
        if form == "PP":
            return cls(P(spec["a"], ints), P(spec["b"], ints))
        return cls(P(spec["a"], ints), V(spec["b"], ints))
    if t == "ConvexPolygon":
        if alt == 1:
            vs = X.vertices(spec)
            if form == "pts":
                order = X.order_face(vs, list(range(len(vs))))
                vs = [vs[i] for i in order]
            vs = list(reversed(vs[2:] + vs[:2]))
            cp = G.ConvexPolygon(tuple(P(p) for p in vs))
            return -cp if spec.get("neg") else cp
        if form == "pgram":
            return G.Parallelogram(P(spec["o"], ints), V(spec["u"], ints), V(spec["w"], ints))
        pts = [P(p, ints) for p in spec["pts"]]
        pts = list(pts) if spec.get("container") == "list" else tuple(pts)
        cp = G.ConvexPolygon(pts)
        return -cp if spec.get("neg") else cp
    if t == "ConvexPolyhedron":
        if form == "ppiped" and alt == 0:
            return G.Parallelepiped(P(spec["o"], ints), V(spec["u"], ints), V(spec["v"], ints), V(spec["w"], ints))
        if form == "ppiped":
            vs = X.vertices(spec)
            faces = [X.order_face(vs, f) for f in X.hull_faces(vs)]
            faces = list(reversed(faces))
            return G.ConvexPolyhedron(tuple(G.ConvexPolygon(tuple(P(vs[i]) for i in f[1:] + f[:1])) for f in faces))
        pts = spec["pts"]
        faces = spec["faces"]
        if alt == 1:
            faces = [list(reversed(f[1:] + f[:1])) for f in reversed(faces)]
        return G.ConvexPolyhedron(tuple(G.ConvexPolygon(tuple(P(pts[i], ints) for i in f)) for f in faces))
    raise ValueError("build: %r" % (spec,))


def _from_accessors(o):
    """rebuild an object from what its own public accessors return"""
    G = lib()
    n = type(o).__name__
    if n == "Point":
        return G.Point(o[0], o[1], o[2])
    if n == "Vector":
        return G.Vector(o[0], o[1], o[2])
    if n == "Line":
        sv, dv = o.parametric()
        return G.Line(G.Vector(*list(sv)), G.Vector(*list(dv)))
    if n == "Plane":
        p, nn = o.point_normal()
        return G.Plane(G.Point(p), G.Vector(*list(nn)))
    if n == "Segment":
        a, b = o.parametric()
        return G.Segment(G.Point(a[0], a[1], a[2]), G.Point(b[0], b[1], b[2]))
    if n == "HalfLine":
        a, d = o.parametric()
        return G.HalfLine(G.Point(a[0], a[1], a[2]), G.Vector(*list(d)))
    if n == "ConvexPolygon":
        return G.ConvexPolygon(tuple(G.Point(p[0], p[1], p[2]) for p in o.points))
    if n == "ConvexPolyhedron":
        return G.ConvexPolyhedron(tuple(G.ConvexPolygon(tuple(G.Point(p[0], p[1], p[2]) for p in f.points)) for f in o.convex_polygons))
    raise ValueError(n)
