"""Denotational comparison of query answers, discrete outcomes, snapshots (DESIGN A.4, A.5)."""
import math

TAU = 1e-7  # absolute tolerance on coordinates
REL = 1e-9  # relative tolerance on numbers
ANG = 1e-6  # absolute tolerance on angles


class Raised(object):
    """an exception outcome; compared by class name only"""

    def __init__(self, exc):
        self.cls = type(exc).__name__
        self.msg = str(exc)[:200]

    def __repr__(self):
        return "raised %s" % self.cls


def call(f, *a):
    """run a query; exceptions become values. The library *returns*
    NotImplementedError instances from a few in_/__contains__ branches: those
    are treated as that exception."""
    try:
        r = f(*a)
    except RecursionError:
        raise
    except Exception as e:  # noqa: any library exception is an outcome
        return Raised(e)
    if isinstance(r, BaseException):
        return Raised(r)
    return r


def tname(o):
    if isinstance(o, Raised):
        return o.cls
    return type(o).__name__


def _close(a, b, tol=TAU):
    if a == b:  # also covers equal infinities
        return True
    if a != a or b != b:  # NaN: the same only if both are
        return a != a and b != b
    return abs(a - b) <= tol


def _pt(p):
    return (float(p[0]), float(p[1]), float(p[2]))


def _pclose(a, b, tol=TAU):
    return all(_close(x, y, tol) for x, y in zip(a, b))


def _unit(v):
    l = math.sqrt(sum(x * x for x in v))
    if l == 0:
        return None
    return tuple(x / l for x in v)


def _match_sets(A, B, tol=TAU):
    """bijection between two lists of points within tol"""
    if len(A) != len(B):
        return False
    B = list(B)
    for a in A:
        for i, b in enumerate(B):
            if _pclose(a, b, tol):
                del B[i]
                break
        else:
            return False
    return True


def same(a, b, angle=False, tau=TAU):
    """do two answers denote the same thing (A.4); tau = absolute tolerance on coordinates"""
    if isinstance(a, Raised) or isinstance(b, Raised):
        return isinstance(a, Raised) and isinstance(b, Raised) and a.cls == b.cls
    if a is None or b is None:
        return a is None and b is None
    if isinstance(a, bool) or isinstance(b, bool):
        return isinstance(a, bool) and isinstance(b, bool) and a == b
    if isinstance(a, (int, float)) and isinstance(b, (int, float)):
        if math.isnan(a) or math.isnan(b):
            return math.isnan(a) and math.isnan(b)
        if angle:
            return abs(a - b) <= ANG
        return abs(a - b) <= REL * max(1.0, abs(a), abs(b))
    ta, tb = type(a).__name__, type(b).__name__
    if ta != tb:
        return False
    if ta in ("Point", "Vector"):
        return _pclose(_pt(a), _pt(b), tau)
    if ta == "Segment":
        a0, a1, b0, b1 = _pt(a.start_point), _pt(a.end_point), _pt(b.start_point), _pt(b.end_point)
        return (_pclose(a0, b0, tau) and _pclose(a1, b1, tau)) or (_pclose(a0, b1, tau) and _pclose(a1, b0, tau))
    if ta == "HalfLine":
        ua, ub = _unit(_pt(a.vector)), _unit(_pt(b.vector))
        if ua is None or ub is None:  # degenerate (zero direction): compare the raw data
            return ua is None and ub is None and _pclose(_pt(a.point), _pt(b.point), tau) and _pclose(_pt(a.vector), _pt(b.vector), tau)
        return _pclose(_pt(a.point), _pt(b.point), tau) and _pclose(ua, ub, tau)
    if ta == "Line":
        ua, ub = _unit(_pt(a.dv)), _unit(_pt(b.dv))
        if ua is None or ub is None:
            return ua is None and ub is None and _pclose(_pt(a.sv), _pt(b.sv), tau) and _pclose(_pt(a.dv), _pt(b.dv), tau)
        if not (_pclose(ua, ub, tau) or _pclose(ua, tuple(-x for x in ub), tau)):
            return False
        fa = _foot(_pt(a.sv), ua)
        fb = _foot(_pt(b.sv), ub)
        return _pclose(fa, fb, tau)
    if ta == "Plane":
        ua, ub = _unit(_pt(a.n)), _unit(_pt(b.n))
        if ua is None or ub is None:
            return ua is None and ub is None and _pclose(_pt(a.p), _pt(b.p), tau) and _pclose(_pt(a.n), _pt(b.n), tau)
        da = sum(x * y for x, y in zip(ua, _pt(a.p)))
        db = sum(x * y for x, y in zip(ub, _pt(b.p)))
        if _pclose(ua, ub, tau):
            return _close(da, db, tau)
        if _pclose(ua, tuple(-x for x in ub), tau):
            return _close(da, -db, tau)
        return False
    if ta == "ConvexPolygon":
        return _match_sets([_pt(p) for p in a.points], [_pt(p) for p in b.points], tau)
    if ta == "ConvexPolyhedron":
        return len(a.convex_polygons) == len(b.convex_polygons) and _match_sets(sorted(_pt(p) for p in a.point_set), sorted(_pt(p) for p in b.point_set), tau)
    if isinstance(a, (tuple, list)) and isinstance(b, (tuple, list)):
        return len(a) == len(b) and all(same(x, y, tau=tau) for x, y in zip(a, b))
    if isinstance(a, str):
        return a == b
    return a == b


def _foot(s, u):
    k = sum(x * y for x, y in zip(s, u))
    return tuple(x - k * y for x, y in zip(s, u))


def disc(r):
    """the discrete, reproducible-by-construction part of an answer (for the
    event chain): truth values, exception classes, type names and counts -
    never a floating-point value."""
    if isinstance(r, Raised):
        return "!" + r.cls
    if r is None:
        return "None"
    if isinstance(r, bool):
        return "T" if r else "F"
    if isinstance(r, (int, float)):
        return "num"
    n = type(r).__name__
    if n == "ConvexPolygon":
        return "ConvexPolygon/%d" % len(r.points)
    if n == "ConvexPolyhedron":
        return "ConvexPolyhedron/%d/%d/%d" % (len(r.point_set), len(r.segment_set), len(r.convex_polygons))
    if isinstance(r, (tuple, list)):
        return "(" + ",".join(disc(x) for x in r) + ")"
    return n


def detail(r):
    """human readable rendering with floats (detail log / reports only)"""
    if isinstance(r, Raised):
        return "raised %s: %s" % (r.cls, r.msg)
    if r is None or isinstance(r, (bool, int, float, str)):
        return repr(r)
    n = type(r).__name__
    try:
        if n in ("Point", "Vector"):
            return "%s(%r, %r, %r)" % (n, r[0], r[1], r[2])
        if n == "Segment":
            return "Segment(%s, %s)" % (detail(r.start_point), detail(r.end_point))
        if n == "HalfLine":
            return "HalfLine(%s, %s)" % (detail(r.point), detail(r.vector))
        if n == "Line":
            return "Line(sv=%s, dv=%s)" % (detail(r.sv), detail(r.dv))
        if n == "Plane":
            return "Plane(p=%s, n=%s)" % (detail(r.p), detail(r.n))
        if n == "ConvexPolygon":
            return "ConvexPolygon(%s)" % ", ".join(detail(p) for p in r.points)
        if n == "ConvexPolyhedron":
            return "ConvexPolyhedron(V=%s)" % ", ".join(sorted(detail(p) for p in r.point_set))
    except Exception as e:  # pragma: no cover - rendering must never fail a run
        return "<%s: unrenderable %s>" % (n, type(e).__name__)
    if isinstance(r, (tuple, list)):
        return "(" + ", ".join(detail(x) for x in r) + ")"
    return repr(r)


# ---------------------------------------------------------------- snapshots


def snapshot(o, _seen=None):
    """deep structural value of the attribute tree (A.5): type names, container
    shapes, numbers bit-exact, sets order-insensitively; generic over __dict__."""
    if _seen is None:
        _seen = {}
    if o is None or isinstance(o, (bool, str)):
        return (type(o).__name__, o)
    if isinstance(o, int):
        return ("int", o)
    if isinstance(o, float):
        return ("float", o.hex())
    if isinstance(o, (list, tuple)):
        if id(o) in _seen:
            return ("cycle",)
        _seen[id(o)] = 1
        r = (type(o).__name__,) + tuple(snapshot(x, _seen) for x in o)
        del _seen[id(o)]
        return r
    if isinstance(o, (set, frozenset)):
        return (type(o).__name__,) + tuple(sorted((snapshot(x, _seen) for x in o), key=repr))
    if isinstance(o, dict):
        return ("dict",) + tuple(sorted(((snapshot(k, _seen), snapshot(v, _seen)) for k, v in o.items()), key=repr))
    if id(o) in _seen:
        return ("cycle",)
    _seen[id(o)] = 1
    try:
        d = getattr(o, "__dict__", None)
        if d is None:
            slots = getattr(type(o), "__slots__", None)
            if slots:
                items = [(s, getattr(o, s)) for s in slots if hasattr(o, s)]
            else:
                return (type(o).__name__, repr(o))
        else:
            items = sorted(d.items())
        return (type(o).__name__,) + tuple((k, snapshot(v, _seen)) for k, v in items)
    finally:
        del _seen[id(o)]


def snap_key(o):
    """compact comparable digest of snapshot(o)"""
    import hashlib

    return hashlib.sha1(repr(snapshot(o)).encode()).hexdigest()


def mutable_ids(o, _acc=None):
    """ids of all mutable sub-objects reachable from o (K4 share test)"""
    if _acc is None:
        _acc = {}
    if o is None or isinstance(o, (bool, int, float, str)):
        return _acc
    if id(o) in _acc:
        return _acc
    if isinstance(o, tuple):
        for x in o:
            mutable_ids(x, _acc)
        return _acc
    _acc[id(o)] = type(o).__name__
    if isinstance(o, (list, set, frozenset)):
        for x in o:
            mutable_ids(x, _acc)
    elif isinstance(o, dict):
        for k, v in o.items():
            mutable_ids(k, _acc)
            mutable_ids(v, _acc)
    else:
        d = getattr(o, "__dict__", None)
        if d:
            for v in d.values():
                mutable_ids(v, _acc)
    return _acc


# ---------------------------------------------------------------- plain-data views


def to_data(r):
    """picklable plain-data view of an answer (crosses a process boundary for the
    forked cold replays); compared with same_data()"""
    if isinstance(r, Raised):
        return ("!", r.cls)
    if r is None or isinstance(r, (bool, str)):
        return ("v", r)
    if isinstance(r, (int, float)):
        return ("n", float(r)) if abs(r) < 1e300 else ("v", repr(r))
    n = type(r).__name__
    try:
        if n in ("Point", "Vector"):
            return (n, _pt(r))
        if n == "Segment":
            return (n, _pt(r.start_point), _pt(r.end_point))
        if n == "HalfLine":
            return (n, _pt(r.point), _pt(r.vector))
        if n == "Line":
            return (n, _pt(r.sv), _pt(r.dv))
        if n == "Plane":
            return (n, _pt(r.p), _pt(r.n))
        if n == "ConvexPolygon":
            return (n, [_pt(p) for p in r.points])
        if n == "ConvexPolyhedron":
            return (n, sorted(_pt(p) for p in r.point_set), len(r.convex_polygons))
    except Exception as e:  # an unreadable result is an outcome of its own
        return ("?", n, type(e).__name__)
    if isinstance(r, (tuple, list)):
        return ("t", [to_data(x) for x in r])
    return ("v", repr(r))


def same_data(a, b, angle=False):
    """same() on plain-data views"""
    if a[0] != b[0]:
        return False
    if a == b:  # bit-identical (the usual case: hot and cold world run the same arithmetic)
        return True
    k = a[0]
    if k in ("!", "v", "?"):
        return a == b
    if k == "n":
        x, y = a[1], b[1]
        if math.isnan(x) or math.isnan(y):
            return math.isnan(x) and math.isnan(y)
        return abs(x - y) <= (ANG if angle else REL * max(1.0, abs(x), abs(y)))
    if k in ("Point", "Vector"):
        return _pclose(a[1], b[1])
    if k == "Segment":
        return (_pclose(a[1], b[1]) and _pclose(a[2], b[2])) or (_pclose(a[1], b[2]) and _pclose(a[2], b[1]))
    if k == "HalfLine":
        ua, ub = _unit(a[2]), _unit(b[2])
        if ua is None or ub is None:
            return ua is None and ub is None and _pclose(a[1], b[1]) and _pclose(a[2], b[2])
        return _pclose(a[1], b[1]) and _pclose(ua, ub)
    if k == "Line":
        ua, ub = _unit(a[2]), _unit(b[2])
        if ua is None or ub is None:
            return ua is None and ub is None and _pclose(a[1], b[1]) and _pclose(a[2], b[2])
        if not (_pclose(ua, ub) or _pclose(ua, tuple(-x for x in ub))):
            return False
        return _pclose(_foot(a[1], ua), _foot(b[1], ub))
    if k == "Plane":
        ua, ub = _unit(a[2]), _unit(b[2])
        if ua is None or ub is None:
            return ua is None and ub is None and _pclose(a[1], b[1]) and _pclose(a[2], b[2])
        da = sum(x * y for x, y in zip(ua, a[1]))
        db = sum(x * y for x, y in zip(ub, b[1]))
        if _pclose(ua, ub):
            return _close(da, db)
        if _pclose(ua, tuple(-x for x in ub)):
            return _close(da, -db)
        return False
    if k == "ConvexPolygon":
        return _match_sets(a[1], b[1])
    if k == "ConvexPolyhedron":
        return a[2] == b[2] and _match_sets(a[1], b[1])
    if k == "t":
        return len(a[1]) == len(b[1]) and all(same_data(x, y) for x, y in zip(a[1], b[1]))
    return a == b


def disc_data(d):
    k = d[0]
    if k == "!":
        return "!" + d[1]
    if k == "v":
        return "None" if d[1] is None else ("T" if d[1] is True else ("F" if d[1] is False else "str"))
    if k == "n":
        return "num"
    if k == "ConvexPolygon":
        return "ConvexPolygon/%d" % len(d[1])
    if k == "ConvexPolyhedron":
        return "ConvexPolyhedron/%d/%d" % (len(d[1]), d[2])
    return k
