"""Exact (Fraction) specifications of geometry objects, catalogues and generators.

Nothing here imports the library under test: op lists are generated from specs
only, so generation can never depend on PYTHONHASHSEED or on library state.
Every number is serialised as the string "n/d" (or "n").
"""
from fractions import Fraction as F
from itertools import combinations

TYPES = ("Point", "Line", "Plane", "Segment", "HalfLine", "ConvexPolygon", "ConvexPolyhedron")

# ---------------------------------------------------------------- vectors


def fr(x):
    return x if isinstance(x, F) else F(x)


def vec(a):
    return tuple(fr(x) for x in a)


def ser(a):
    return [str(fr(x)) for x in a]


def add(a, b):
    return tuple(x + y for x, y in zip(a, b))


def sub(a, b):
    return tuple(x - y for x, y in zip(a, b))


def mul(k, a):
    return tuple(k * x for x in a)


def dot(a, b):
    return sum(x * y for x, y in zip(a, b))


def cross(a, b):
    return (
        a[1] * b[2] - a[2] * b[1],
        a[2] * b[0] - a[0] * b[2],
        a[0] * b[1] - a[1] * b[0],
    )


def is_zero(a):
    return all(x == 0 for x in a)


def parallel(a, b):
    return is_zero(cross(a, b))


def det3(u, v, w):
    return dot(u, cross(v, w))


def max_den(p):
    return max(fr(x).denominator for x in p)


ZERO = (F(0), F(0), F(0))
AXES = ((F(1), F(0), F(0)), (F(0), F(1), F(0)), (F(0), F(0), F(1)))

# ---------------------------------------------------------------- catalogues

POLY2D = [
    [(0, 0), (2, 0), (0, 2)],
    [(0, 0), (3, 0), (1, 2)],
    [(0, 0), (2, 0), (2, 1), (0, 1)],
    [(0, 0), (3, 0), (2, 1), (1, 1)],
    [(1, 0), (2, 1), (1, 3), (0, 1)],
    [(0, 0), (2, 0), (3, 1), (1, 2), (0, 1)],
    [(1, 0), (2, 0), (3, 1), (2, 2), (1, 2), (0, 1)],
    [(1, 0), (3, 0), (4, 1), (4, 2), (3, 3), (1, 3), (0, 2)],
    [(1, 0), (2, 0), (3, 1), (3, 2), (2, 3), (1, 3), (0, 2), (0, 1)],
]


def _check_poly2d():
    for poly in POLY2D:
        n = len(poly)
        for i in range(n):
            a, b, c = poly[i], poly[(i + 1) % n], poly[(i + 2) % n]
            turn = (b[0] - a[0]) * (c[1] - b[1]) - (b[1] - a[1]) * (c[0] - b[0])
            if turn <= 0:
                raise AssertionError("catalogue polygon not strictly convex: %r" % (poly,))


_check_poly2d()


def hull_faces(pts):
    """faces (as sorted index lists) of the convex hull of exact points in
    general position w.r.t. being all hull vertices; brute force, exact."""
    n = len(pts)
    faces = set()
    for i, j, k in combinations(range(n), 3):
        nrm = cross(sub(pts[j], pts[i]), sub(pts[k], pts[i]))
        if is_zero(nrm):
            continue
        side = [dot(nrm, sub(p, pts[i])) for p in pts]
        if all(s <= 0 for s in side) or all(s >= 0 for s in side):
            faces.add(tuple(m for m in range(n) if side[m] == 0))
    return [list(f) for f in sorted(faces)]


def order_face(pts, idx):
    """order the vertex indices of a planar convex face around its centroid"""
    p = [pts[i] for i in idx]
    nrm = None
    for a, b, c in combinations(range(len(p)), 3):
        nrm = cross(sub(p[b], p[a]), sub(p[c], p[a]))
        if not is_zero(nrm):
            break
    cen = mul(F(1, len(p)), tuple(sum(q[d] for q in p) for d in range(3)))
    # exact angular order: sort by half-plane then cross product sign
    ref = sub(p[0], cen)

    def keyf(i):
        v = sub(pts[i], cen)
        c = dot(cross(ref, v), nrm)
        d = dot(ref, v)
        return (c, d)

    # simple exact insertion sort by orientation predicate
    def half(v):
        c = dot(cross(ref, v), nrm)
        d = dot(ref, v)
        if c == 0 and d > 0:
            return 0
        return 1 if c > 0 else (2 if c == 0 else 3)

    def less(i, j):
        vi, vj = sub(pts[i], cen), sub(pts[j], cen)
        hi, hj = half(vi), half(vj)
        if hi != hj:
            return hi < hj
        return dot(cross(vi, vj), nrm) > 0

    out = []
    for i in idx:
        pos = len(out)
        for m, j in enumerate(out):
            if less(i, j):
                pos = m
                break
        out.insert(pos, i)
    return out


def _body(pts):
    pts = [vec(p) for p in pts]
    faces = [order_face(pts, f) for f in hull_faces(pts)]
    used = sorted(set(i for f in faces for i in f))
    assert used == list(range(len(pts))), "catalogue body has interior points"
    edges = set()
    for f in faces:
        for a, b in zip(f, f[1:] + f[:1]):
            edges.add((min(a, b), max(a, b)))
    assert len(pts) - len(edges) + len(faces) == 2, "Euler check failed"
    return {"pts": pts, "faces": faces, "edges": sorted(edges)}


def _prism(poly, h=1):
    return [(x, y, 0) for x, y in poly] + [(x, y, h) for x, y in poly]


BODIES = {
    "tetra": _body([(0, 0, 0), (2, 0, 0), (0, 2, 0), (0, 0, 2)]),
    "cube": _body([(x, y, z) for x in (0, 2) for y in (0, 2) for z in (0, 2)]),
    "triprism": _body(_prism([(0, 0), (2, 0), (0, 2)], 2)),
    "sqpyramid": _body([(0, 0, 0), (2, 0, 0), (2, 2, 0), (0, 2, 0), (1, 1, 2)]),
    "octa": _body([(1, 0, 0), (-1, 0, 0), (0, 1, 0), (0, -1, 0), (0, 0, 1), (0, 0, -1)]),
    "pentaprism": _body(_prism(POLY2D[5], 1)),
    "trunccube": _body(
        [(x, y, z) for x in (0, 2) for y in (0, 2) for z in (0, 2) if (x, y, z) != (2, 2, 2)]
        + [(1, 2, 2), (2, 1, 2), (2, 2, 1)]
    ),
    "housecube": _body([(x, y, z) for x in (0, 2) for y in (0, 2) for z in (0, 2)] + [(1, 1, 3)]),
    "hexprism": _body(_prism(POLY2D[6], 1)),
}
BODY_NAMES = sorted(BODIES)
FAST_BODIES = ("tetra", "cube", "triprism", "sqpyramid")

# ---------------------------------------------------------------- generators


def rnd_lattice(rng, den=4, lim=6):
    return tuple(F(rng.randint(-lim * den, lim * den), den) for _ in range(3))


def rnd_dir(rng, lim=2):
    while True:
        d = tuple(F(rng.randint(-lim, lim)) for _ in range(3))
        if not is_zero(d):
            return d


def rnd_frame2(rng, lim=2):
    while True:
        u, w = rnd_dir(rng, lim), rnd_dir(rng, lim)
        if not parallel(u, w):
            return u, w


def rnd_frame3(rng, lim=2):
    while True:
        u, v, w = rnd_dir(rng, lim), rnd_dir(rng, lim), rnd_dir(rng, lim)
        if det3(u, v, w) != 0:
            return u, v, w


def inplane_basis(n):
    """two independent integer-ish vectors orthogonal to n (exact)"""
    cands = [cross(n, ax) for ax in AXES]
    cands = [c for c in cands if not is_zero(c)]
    e1 = cands[0]
    e2 = cross(n, e1)
    # keep them small: divide by gcd-like content
    return _primitive(e1), _primitive(e2)


def _primitive(v):
    from math import gcd

    den = 1
    for x in v:
        den = den * x.denominator // gcd(den, x.denominator)
    ints = [int(x * den) for x in v]
    g = 0
    for i in ints:
        g = gcd(g, abs(i))
    g = g or 1
    return tuple(F(i // g) for i in ints)


def polygon_points(o, u, w, s, poly2d):
    return [add(o, mul(s, add(mul(F(i), u), mul(F(j), w)))) for i, j in poly2d]


def gen_polygon_pts(rng, o=None, u=None, w=None, which=None):
    if u is None:
        u, w = rnd_frame2(rng)
    if o is None:
        o = rnd_lattice(rng, den=2, lim=3)
    poly = POLY2D[rng.randrange(len(POLY2D)) if which is None else which]
    s = rng.choice([F(1, 2), F(1), F(1)])
    return polygon_points(o, u, w, s, poly)


def gen_body(rng, names=None, o=None):
    name = rng.choice(names or BODY_NAMES)
    body = BODIES[name]
    u, v, w = rnd_frame3(rng)
    if rng.random() < 0.35:  # axis-aligned pose now and then
        u, v, w = AXES
        perm = [u, v, w]
        rng.shuffle(perm)
        u, v, w = perm
    s = rng.choice([F(1, 2), F(1, 2), F(1)])
    if o is None:
        o = rnd_lattice(rng, den=2, lim=3)
    pts = [add(o, mul(s, add(add(mul(p[0], u), mul(p[1], v)), mul(p[2], w)))) for p in body["pts"]]
    faces = [list(f) for f in body["faces"]]
    return name, pts, faces


def gen_spec(rng, typ, form=None):
    """random exact subject spec of the given type"""
    ints = rng.random() < 0.25
    den = 1 if ints else rng.choice([2, 2, 4])
    P = lambda: rnd_lattice(rng, den=den, lim=5)
    if typ == "Point":
        return {"t": typ, "form": form or rng.choice(["xyz", "list", "vec"]), "p": ser(P()), "ints": ints}
    if typ == "Vector":
        return {"t": typ, "form": "xyz", "p": ser(P()), "ints": ints}
    if typ == "Line":
        form = form or rng.choice(["PP", "PV", "VV"])
        a = P()
        d = rnd_dir(rng, 3)
        b = add(a, d) if form == "PP" else d
        return {"t": typ, "form": form, "a": ser(a), "b": ser(b), "ints": ints}
    if typ == "Plane":
        form = form or rng.choice(["PV", "PPP", "PVV", "GF"])
        a = P()
        if form == "PV":
            return {"t": typ, "form": form, "a": ser(a), "n": ser(rnd_dir(rng, 3)), "ints": ints}
        if form == "GF":
            while True:
                n = rnd_dir(rng, 3)
                if n[0] != 0:
                    break
            return {"t": typ, "form": form, "a": ser(a), "n": ser(n), "d": str(dot(n, a)), "ints": ints}
        u, w = rnd_frame2(rng)
        if form == "PPP":
            return {"t": typ, "form": form, "a": ser(a), "b": ser(add(a, u)), "c": ser(add(a, w)), "ints": ints}
        return {"t": typ, "form": form, "a": ser(a), "u": ser(u), "w": ser(w), "ints": ints}
    if typ in ("Segment", "HalfLine"):
        form = form or rng.choice(["PP", "PV"])
        a = P()
        d = mul(rng.choice([F(1), F(1), F(2), F(1, 2)]) if not ints else F(rng.choice([1, 1, 2])), rnd_dir(rng, 3))
        b = add(a, d) if form == "PP" else d
        return {"t": typ, "form": form, "a": ser(a), "b": ser(b), "ints": ints}
    if typ == "ConvexPolygon":
        form = form or rng.choice(["pts", "pts", "pts", "pgram"])
        if form == "pgram":
            u, w = rnd_frame2(rng)
            return {"t": typ, "form": form, "o": ser(P()), "u": ser(u), "w": ser(w), "ints": ints}
        pts = gen_polygon_pts(rng)
        rng.shuffle(pts)
        # shuffled vertices are fine for the library (it sorts by angle) as long
        # as the first three are not collinear (they define the plane)
        for _ in range(50):
            if not parallel(sub(pts[1], pts[0]), sub(pts[2], pts[0])):
                break
            rng.shuffle(pts)
        dup = rng.random() < 0.25
        if dup:
            pts = pts + [pts[rng.randrange(len(pts))]]
        return {
            "t": typ,
            "form": "pts",
            "pts": [ser(p) for p in pts],
            "neg": rng.random() < 0.25,
            "container": rng.choice(["tuple", "tuple", "list"]),
            "ints": all(max_den(p) == 1 for p in pts) and rng.random() < 0.5,
        }
    if typ == "ConvexPolyhedron":
        form = form or rng.choice(["faces", "faces", "faces", "ppiped"])
        if form == "ppiped":
            u, v, w = rnd_frame3(rng)
            return {"t": typ, "form": form, "o": ser(P()), "u": ser(u), "v": ser(v), "w": ser(w), "ints": ints}
        name, pts, faces = gen_body(rng)
        rng.shuffle(faces)
        faces = [f[k:] + f[:k] if rng.random() < 0.5 else list(reversed(f)) for f in faces for k in [rng.randrange(len(f))]]
        return {"t": typ, "form": "faces", "body": name, "pts": [ser(p) for p in pts], "faces": faces, "ints": False}
    raise ValueError(typ)


# ---------------------------------------------------------------- spec algebra

_POS = {
    ("Point", None): ["p"],
    ("Vector", None): [],
    ("Line", "PP"): ["a", "b"],
    ("Line", "PV"): ["a"],
    ("Line", "VV"): ["a"],
    ("Plane", "PV"): ["a"],
    ("Plane", "PPP"): ["a", "b", "c"],
    ("Plane", "PVV"): ["a"],
    ("Plane", "GF"): ["a"],
    ("Segment", "PP"): ["a", "b"],
    ("Segment", "PV"): ["a"],
    ("HalfLine", "PP"): ["a", "b"],
    ("HalfLine", "PV"): ["a"],
    ("ConvexPolygon", "pgram"): ["o"],
    ("ConvexPolyhedron", "ppiped"): ["o"],
}


def translate(spec, t):
    """exact translation of a spec by the exact vector t"""
    t = vec(t)
    out = dict(spec)
    typ, form = spec["t"], spec.get("form")
    if typ in ("ConvexPolygon", "ConvexPolyhedron") and form in ("pts", "faces"):
        out["pts"] = [ser(add(vec(p), t)) for p in spec["pts"]]
        return out
    keys = _POS.get((typ, form), _POS.get((typ, None)))
    if keys is None:
        raise ValueError("translate: %r" % (spec,))
    for k in keys:
        out[k] = ser(add(vec(spec[k]), t))
    if typ == "Plane" and form == "GF":
        out["d"] = str(fr(spec["d"]) + dot(vec(spec["n"]), t))
    return out


def vertices(spec):
    """exact vertex list of a polygon / polyhedron spec"""
    f = spec["form"]
    if f in ("pts", "faces"):
        seen, out = set(), []
        for p in spec["pts"]:
            q = vec(p)
            if q not in seen:
                seen.add(q)
                out.append(q)
        return out
    o = vec(spec["o"])
    if f == "pgram":
        u, w = vec(spec["u"]), vec(spec["w"])
        return [o, add(o, u), add(add(o, u), w), add(o, w)]
    u, v, w = vec(spec["u"]), vec(spec["v"]), vec(spec["w"])
    return [add(o, add(add(mul(F(a), u), mul(F(b), v)), mul(F(c), w))) for a in (0, 1) for b in (0, 1) for c in (0, 1)]


def poly_edges(spec):
    """exact edges (pairs of points) of a polygon / polyhedron spec"""
    vs = vertices(spec)
    if spec["t"] == "ConvexPolygon":
        if spec["form"] == "pgram":
            order = list(range(4))
        else:
            order = order_face(vs, list(range(len(vs))))
        return [(vs[a], vs[b]) for a, b in zip(order, order[1:] + order[:1])]
    if spec["form"] == "ppiped":
        faces = [order_face(vs, f) for f in hull_faces(vs)]
    else:
        allp = [vec(p) for p in spec["pts"]]
        idx = {p: i for i, p in enumerate(vs)}
        faces = [[idx[allp[i]] for i in f] for f in spec["faces"]]
        faces = [order_face(vs, f) for f in faces]
    edges = set()
    for f in faces:
        for a, b in zip(f, f[1:] + f[:1]):
            edges.add((min(a, b), max(a, b)))
    return [(vs[a], vs[b]) for a, b in sorted(edges)]


def carrier(spec):
    """(point, direction) of Line/Segment/HalfLine specs; (point, normal) of Plane"""
    typ, form = spec["t"], spec["form"]
    a = vec(spec["a"])
    if typ == "Plane":
        if form in ("PV", "GF"):
            return a, vec(spec["n"])
        if form == "PPP":
            return a, cross(sub(vec(spec["b"]), a), sub(vec(spec["c"]), a))
        return a, cross(vec(spec["u"]), vec(spec["w"]))
    b = vec(spec["b"])
    return a, (sub(b, a) if form == "PP" else b)


def features(spec):
    """exact points on / in the object, exact directions within it and normals"""
    typ = spec["t"]
    pts, dirs, nrm = [], [], []
    if typ == "Point":
        pts = [vec(spec["p"])]
    elif typ == "Vector":
        dirs = [vec(spec["p"])] if not is_zero(vec(spec["p"])) else []
    elif typ == "Line":
        a, d = carrier(spec)
        pts = [a, add(a, d), sub(a, d), add(a, mul(F(2), d))]
        dirs = [d]
    elif typ == "Plane":
        a, n = carrier(spec)
        e1, e2 = inplane_basis(n)
        pts = [a, add(a, e1), add(a, e2), sub(a, e1), add(add(a, e1), e2)]
        dirs = [e1, e2]
        nrm = [n]
    elif typ == "Segment":
        a, d = carrier(spec)
        pts = [a, add(a, d), add(a, mul(F(1, 2), d)), add(a, mul(F(1, 4), d))]
        dirs = [d]
    elif typ == "HalfLine":
        a, d = carrier(spec)
        pts = [a, add(a, d), add(a, mul(F(2), d)), add(a, mul(F(1, 2), d))]
        dirs = [d]
    else:
        vs = vertices(spec)
        edges = poly_edges(spec)
        pts = list(vs)
        pts += [mul(F(1, 2), add(a, b)) for a, b in edges]
        for a, b in combinations(vs, 2):
            pts.append(mul(F(1, 2), add(a, b)))
        dirs = []
        for a, b in edges:
            d = _primitive(sub(b, a))
            if not any(parallel(d, e) for e in dirs):
                dirs.append(d)
        if typ == "ConvexPolygon":
            a, b = edges[0]
            for c, d in edges[1:]:
                n = cross(sub(b, a), sub(d, c))
                if not is_zero(n):
                    nrm = [_primitive(n)]
                    break
        else:
            for (a, b), (c, d) in combinations(edges, 2):
                n = cross(sub(b, a), sub(d, c))
                if not is_zero(n):
                    n = _primitive(n)
                    if not any(parallel(n, m) for m in nrm):
                        nrm.append(n)
                if len(nrm) >= 4:
                    break
    # dedupe keeping order; keep the quantifier's lattice (denominators <= 4)
    seen, out = set(), []
    for p in pts:
        if p not in seen and max_den(p) <= 4:
            seen.add(p)
            out.append(p)
    return {"pts": out, "dirs": dirs, "normals": nrm}


# ---------------------------------------------------------------- probes


def gen_probe(rng, sub_spec, ptype):
    """a probe spec of type ptype, biased to touch the subject's features"""
    ft = features(sub_spec)
    fp = ft["pts"] or [rnd_lattice(rng)]
    fd = ft["dirs"]
    fn = ft["normals"]
    pick = lambda: rng.choice(fp)
    mode = rng.random()
    ints = False
    if ptype == "Point":
        if mode < 0.5:
            p = pick()
        elif mode < 0.8:
            p = add(pick(), mul(F(rng.choice([1, 1, 2]), rng.choice([1, 2, 4])), rnd_dir(rng, 1)))
        else:
            p = rnd_lattice(rng)
        return {"t": "Point", "form": "xyz", "p": ser(p), "ints": ints}
    if ptype == "Line":
        if mode < 0.3 and len(fp) >= 2:
            a, b = rng.sample(fp, 2)
            return {"t": "Line", "form": "PP", "a": ser(a), "b": ser(b), "ints": ints}
        if mode < 0.55 and fd:
            a = pick() if rng.random() < 0.6 else add(pick(), rnd_dir(rng, 1))
            return {"t": "Line", "form": "PV", "a": ser(a), "b": ser(rng.choice(fd)), "ints": ints}
        if mode < 0.65 and fn:
            return {"t": "Line", "form": "PV", "a": ser(pick()), "b": ser(rng.choice(fn)), "ints": ints}
        a = pick() if mode < 0.9 else rnd_lattice(rng)
        return {"t": "Line", "form": rng.choice(["PV", "VV"]), "a": ser(a), "b": ser(rnd_dir(rng)), "ints": ints}
    if ptype == "Plane":
        if mode < 0.3 and fn:
            a = pick() if rng.random() < 0.6 else add(pick(), rnd_dir(rng, 1))
            return {"t": "Plane", "form": "PV", "a": ser(a), "n": ser(rng.choice(fn)), "ints": ints}
        if mode < 0.55 and fd:
            d = rng.choice(fd)
            for _ in range(20):
                n = cross(d, rnd_dir(rng))
                if not is_zero(n):
                    return {"t": "Plane", "form": "PV", "a": ser(pick()), "n": ser(_primitive(n)), "ints": ints}
        if mode < 0.65 and fd:
            return {"t": "Plane", "form": "PV", "a": ser(pick()), "n": ser(rng.choice(fd)), "ints": ints}
        a = pick() if mode < 0.9 else rnd_lattice(rng)
        if rng.random() < 0.3:
            u, w = rnd_frame2(rng)
            return {"t": "Plane", "form": "PVV", "a": ser(a), "u": ser(u), "w": ser(w), "ints": ints}
        return {"t": "Plane", "form": "PV", "a": ser(a), "n": ser(rnd_dir(rng)), "ints": ints}
    if ptype in ("Segment", "HalfLine"):
        if mode < 0.3 and len(fp) >= 2:
            a, b = rng.sample(fp, 2)
            return {"t": ptype, "form": "PP", "a": ser(a), "b": ser(b), "ints": ints}
        if mode < 0.6 and fd:
            d = mul(F(rng.choice([1, -1, 2, -2, 3])) * (F(1, 2) if rng.random() < 0.3 else 1), rng.choice(fd))
            a = pick() if rng.random() < 0.7 else add(pick(), rnd_dir(rng, 1))
            return {"t": ptype, "form": "PV", "a": ser(a), "b": ser(d), "ints": ints}
        if mode < 0.85:
            a = pick()
            d = mul(F(rng.choice([1, 2])), rnd_dir(rng))
            if rng.random() < 0.5:  # crossing through the feature point
                a = sub(a, d)
                d = mul(F(2), d)
            return {"t": ptype, "form": "PV", "a": ser(a), "b": ser(d), "ints": ints}
        return {"t": ptype, "form": "PV", "a": ser(rnd_lattice(rng)), "b": ser(rnd_dir(rng)), "ints": ints}
    if ptype == "ConvexPolygon":
        which = rng.randrange(len(POLY2D))
        poly = POLY2D[which]
        s = rng.choice([F(1, 2), F(1), F(1)])
        if mode < 0.35 and fn and fd:
            # coplanar with (a face of) the subject
            n = rng.choice(fn)
            u = rng.choice([d for d in fd if dot(d, n) == 0] or [inplane_basis(n)[0]])
            w = _primitive(cross(n, u))
        elif mode < 0.6 and fd:
            u = rng.choice(fd)
            while True:
                w = rnd_dir(rng)
                if not parallel(u, w):
                    break
        else:
            u, w = rnd_frame2(rng)
        anchor = pick() if mode < 0.9 else rnd_lattice(rng, 2, 3)
        # place so that a polygon vertex, edge midpoint or interior point is at the anchor
        r = rng.random()
        i, j = poly[rng.randrange(len(poly))]
        if r < 0.4:
            off = (F(i), F(j))
        elif r < 0.7:
            i2, j2 = poly[(poly.index((i, j)) + 1) % len(poly)]
            off = (F(i + i2, 2), F(j + j2, 2))
        else:
            off = (F(sum(p[0] for p in poly), len(poly)), F(sum(p[1] for p in poly), len(poly)))
            off = (F(round(off[0] * 2), 2), F(round(off[1] * 2), 2))
        o = sub(anchor, mul(s, add(mul(off[0], u), mul(off[1], w))))
        pts = polygon_points(o, u, w, s, poly)
        rng.shuffle(pts)
        for _ in range(50):
            if not parallel(sub(pts[1], pts[0]), sub(pts[2], pts[0])):
                break
            rng.shuffle(pts)
        return {"t": ptype, "form": "pts", "pts": [ser(p) for p in pts], "neg": False, "container": "tuple", "ints": False}
    if ptype == "ConvexPolyhedron":
        if mode < 0.5:
            # a box with the anchor at a corner, face centre or body centre
            if fd and rng.random() < 0.5:
                u = rng.choice(fd)
                for _ in range(50):
                    v, w = rnd_dir(rng), rnd_dir(rng)
                    if det3(u, v, w) != 0:
                        break
                else:
                    u, v, w = AXES
            elif rng.random() < 0.5:
                u, v, w = AXES
            else:
                u, v, w = rnd_frame3(rng)
            k = rng.choice([F(1), F(1), F(2)])
            u, v, w = mul(k, u), mul(k, v), mul(k, w)
            c = rng.choice([(F(0), F(0), F(0)), (F(1, 2), F(1, 2), F(1, 2)), (F(1, 2), F(1, 2), F(0)), (F(1, 2), F(0), F(0)), (F(1), F(1), F(1))])
            anchor = pick() if mode < 0.45 else rnd_lattice(rng, 2, 3)
            o = sub(anchor, add(add(mul(c[0], u), mul(c[1], v)), mul(c[2], w)))
            return {"t": ptype, "form": "ppiped", "o": ser(o), "u": ser(u), "v": ser(v), "w": ser(w), "ints": ints}
        name, pts, faces = gen_body(rng, FAST_BODIES)
        anchor = pick() if mode < 0.9 else rnd_lattice(rng, 2, 3)
        shift = sub(anchor, pts[rng.randrange(len(pts))])
        pts = [add(p, shift) for p in pts]
        return {"t": ptype, "form": "faces", "body": name, "pts": [ser(p) for p in pts], "faces": faces, "ints": False}
    raise ValueError(ptype)
