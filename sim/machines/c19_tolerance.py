"""C19 - tolerance is uniform and follows set_eps / set_sig_figures.

Configuration-history simulation against a two-variable model (DESIGN 4.2).
The model is (eps_m, sig_m), updated by the documented rules. Objects of all
seven types plus Vector live across configuration changes; J1 (getters follow
the model), J2 (objects displaced by <= eps/1000 are equal in every respect),
J3 (Points/Vectors displaced by 5 eps are unequal) and J4 (restoring a
configuration restores the behaviour) are asserted as the history proceeds.
"""
import copy
import math
from fractions import Fraction as F

from .. import exactspec as X
from ..build import build
from ..compare import Raised, call, detail, disc, same, tname
from ..exact import boundary_distance, float_near_boundary, hashed_quantities
from ..libenv import lib

NAME = "C19"
ROT = ("Point", "Vector", "Line", "Plane", "Segment", "HalfLine", "ConvexPolygon", "ConvexPolyhedron")
JS = (5, 6, 7, 8, 9, 10, 11, 12)
NONPOW = ("2e-06", "5e-08", "7e-11")

# ------------------------------------------------------------------ frames


def _frames():
    base = [
        ((1, 0, 0), (0, 1, 0), (0, 0, 1)),
        ((1, 2, 2), (2, 1, -2), (2, -2, 1)),
        ((2, 3, 6), (3, -6, 2), (6, 2, -3)),
    ]
    out = []
    perms = [(0, 1, 2), (1, 2, 0), (2, 0, 1), (0, 2, 1), (2, 1, 0), (1, 0, 2)]
    signs = [(1, 1, 1), (-1, 1, 1), (1, -1, 1), (1, 1, -1), (-1, -1, 1), (-1, 1, -1), (1, -1, -1), (-1, -1, -1)]
    for fam, fr in enumerate(base):
        for p in perms:
            for s in signs:
                f = tuple(tuple(F(s[i] * v[p[i]]) for i in range(3)) for v in fr)
                out.append((fam, f))
    return out


FRAMES = _frames()
FAM_LEN = (1, 3, 7)


def gen_cat(rng, typ):
    """an undisplaced catalogue spec: coordinates multiples of 1/8, frame with
    rational unit vectors"""
    fam, (e1, e2, e3) = FRAMES[rng.randrange(len(FRAMES))]
    if rng.random() < 0.3:
        order = [e1, e2, e3]
        rng.shuffle(order)
        e1, e2, e3 = order
    o = tuple(F(rng.randint(-16, 16), 8) for _ in range(3))
    # scale so that s*e is a multiple of 1/8 and stays small
    s = {0: rng.choice([F(1, 2), F(1), F(3, 2), F(2)]), 1: rng.choice([F(1, 8), F(1, 4), F(1, 2)]), 2: rng.choice([F(1, 8), F(1, 8), F(1, 4)])}[fam]
    base = {"ints": False, "fam": fam, "f1": X.ser(e1), "f2": X.ser(e2), "f3": X.ser(e3)}
    if typ == "Point":
        return dict(base, t="Point", form=rng.choice(["xyz", "list"]), p=X.ser(o))
    if typ == "Vector":
        return dict(base, t="Vector", form="xyz", p=X.ser(o if not X.is_zero(o) else (F(1), F(0), F(0))))
    if typ == "Line":
        form = rng.choice(["PP", "PV", "VV"])
        b = X.add(o, X.mul(s, e1)) if form == "PP" else e1
        return dict(base, t="Line", form=form, a=X.ser(o), b=X.ser(b))
    if typ == "Plane":
        form = rng.choice(["PV", "PPP", "PVV", "GF"])
        if form == "GF" and e3[0] == 0:
            form = "PV"
        if form == "PV":
            return dict(base, t="Plane", form=form, a=X.ser(o), n=X.ser(e3))
        if form == "GF":
            return dict(base, t="Plane", form=form, a=X.ser(o), n=X.ser(e3), d=str(X.dot(e3, o)))
        if form == "PPP":
            return dict(base, t="Plane", form=form, a=X.ser(o), b=X.ser(X.add(o, X.mul(s, e1))), c=X.ser(X.add(o, X.mul(s, e2))))
        return dict(base, t="Plane", form=form, a=X.ser(o), u=X.ser(e1), w=X.ser(e2))
    if typ in ("Segment", "HalfLine"):
        form = rng.choice(["PP", "PV"])
        d = X.mul(s * rng.choice([1, 2, 3]), e1)
        if typ == "HalfLine" and form == "PV" and rng.random() < 0.5:
            d = e1
        return dict(base, t=typ, form=form, a=X.ser(o), b=X.ser(X.add(o, d) if form == "PP" else d))
    if typ == "ConvexPolygon":
        if rng.random() < 0.25:
            return dict(base, t=typ, form="pgram", o=X.ser(o), u=X.ser(X.mul(s * rng.choice([1, 2]), e1)), w=X.ser(X.mul(s * rng.choice([1, 2]), e2)))
        poly = X.POLY2D[rng.randrange(len(X.POLY2D))]
        pts = X.polygon_points(o, e1, e2, s if fam else s / 2, poly)
        k = rng.randrange(len(pts))
        pts = pts[k:] + pts[:k]
        if rng.random() < 0.5:
            pts.reverse()
        return dict(base, t=typ, form="pts", pts=[X.ser(p) for p in pts], neg=False, container="tuple")
    if typ == "ConvexPolyhedron":
        a, b, c = (s * rng.choice([1, 2]) for _ in range(3))
        u, v, w = X.mul(a, e1), X.mul(b, e2), X.mul(c, e3)
        if rng.random() < 0.4:
            return dict(base, t=typ, form="ppiped", o=X.ser(o), u=X.ser(u), v=X.ser(v), w=X.ser(w))
        pts = [X.add(o, X.add(X.add(X.mul(F(i), u), X.mul(F(j), v)), X.mul(F(k), w))) for i in (0, 1) for j in (0, 1) for k in (0, 1)]
        faces = [X.order_face(pts, f) for f in X.hull_faces(pts)]
        rng.shuffle(faces)
        return dict(base, t=typ, form="faces", body="box", pts=[X.ser(p) for p in pts], faces=faces)
    raise ValueError(typ)


_COORD_KEYS = ("p", "a", "b", "c", "n", "u", "v", "w", "o")


def coord_paths(spec):
    """paths of all defining coordinates of a spec"""
    out = []
    for k in _COORD_KEYS:
        if k in spec and isinstance(spec[k], list):
            out += [(k, i) for i in range(3)]
    if "d" in spec:
        out.append(("d", None))
    if "pts" in spec:
        for i in range(len(spec["pts"])):
            out += [("pts", i, j) for j in range(3)]
    return out


def displace(spec, delta, signs):
    """every defining coordinate + sign*delta (exact)"""
    out = copy.deepcopy(spec)
    for path, sg in zip(coord_paths(spec), signs):
        if not sg:
            continue
        if len(path) == 3:
            _, i, j = path
            out["pts"][i][j] = str(F(out["pts"][i][j]) + sg * delta)
        elif path[1] is None:
            out["d"] = str(F(out["d"]) + sg * delta)
        else:
            out[path[0]][path[1]] = str(F(out[path[0]][path[1]]) + sg * delta)
    return out


def delta_of(k):
    return F(1, 10 ** (k + 3))


def def_points(spec):
    """exact points that lie on the object by construction (to test `in`)"""
    t, form = spec["t"], spec.get("form")
    if t == "Point":
        return [X.vec(spec["p"])]
    if t in ("Line", "Segment", "HalfLine"):
        a, d = X.carrier(spec)
        return [a, X.add(a, d)]
    if t == "Plane":
        if form == "PPP":
            return [X.vec(spec["a"]), X.vec(spec["b"]), X.vec(spec["c"])]
        if form == "GF":
            return []
        return [X.vec(spec["a"])]
    if t in ("ConvexPolygon", "ConvexPolyhedron"):
        return X.vertices(spec)
    return []


# ------------------------------------------------------------------ admissibility


def admit(spec_a, spec_b, digits):
    """exact admission of a pair at `digits`: every hashed quantity of A is >= 7%
    of a rounding step from a boundary, the same quantity of A' lies in the same
    cell, >= 5% from a boundary, and moved by <= 1.2% of a step."""
    try:
        qa, qb = hashed_quantities(spec_a), hashed_quantities(spec_b)
    except Exception:
        return False, "unevaluable"
    if len(qa) != len(qb):
        return False, "shape"
    scale = F(10) ** digits
    for x, y in zip(qa, qb):
        if boundary_distance(x, digits) < 0.07:
            return False, "A near boundary"
        if boundary_distance(y, digits) < 0.05:
            return False, "A' near boundary"
        shift = abs(float(y - x)) * float(scale) if type(x) is type(y) else 1.0
        if shift > 0.012:
            return False, "amplified"
    return True, ""


# ------------------------------------------------------------------ generation


def generate(rng, k, tier="quick"):
    typ = ROT[k % len(ROT)]
    heavy = typ == "ConvexPolyhedron"
    ops = []
    j = 10  # model of the current digits while generating (None after a non-power)
    pop = []  # (base id, companion id, k)
    nid = [0]

    def new_id(p):
        nid[0] += 1
        return "%s%d" % (p, nid[0])

    def set_config():
        nonlocal j
        r = rng.random()
        if r < 0.42:
            j = rng.choice(JS)
            ops.append({"op": "SET_EPS", "j": j})
        elif r < 0.84:
            j = rng.choice(JS)
            ops.append({"op": "SET_SIG", "j": j})
        elif r < 0.89:
            j = 10
            ops.append({"op": "SET_EPS", "j": None})
        elif r < 0.94:
            j = 10
            ops.append({"op": "SET_SIG", "j": None})
        else:
            x = rng.choice(NONPOW)
            j = None
            ops.append({"op": "SET_EPS", "j": "x:" + x})
        ops.append({"op": "CHECK_GETTERS"})

    def build_pair(base=None, kk=None):
        t = typ if rng.random() < 0.75 else rng.choice(ROT[:6])
        if base is None:
            cat = gen_cat(rng, t)
            base = new_id("A")
            ops.append({"op": "BUILD", "id": base, "spec": cat})
            cats[base] = cat
        cat = cats[base]
        if kk is None:
            jj = j if j is not None else 10
            kk = jj if rng.random() < 0.6 else rng.choice([jj, jj + 1, jj + 2, jj - 1, rng.choice(JS)])
            kk = max(4, min(13, kk))
        n = len(coord_paths(cat))
        mode = rng.random()
        if mode < 0.5:
            signs = [rng.choice([-1, 1]) for _ in range(n)]
        elif mode < 0.8:
            signs = [rng.choice([-1, 0, 1]) for _ in range(n)]
        else:
            signs = [0] * n
            signs[rng.randrange(n)] = rng.choice([-1, 1])
        comp = new_id("B")
        ops.append({"op": "BUILD", "id": comp, "base": base, "k": kk, "signs": signs})
        pop.append((base, comp, kk))
        return base, comp

    cats = {}
    n_steps = rng.randint(10, 18 if heavy else 30) + (rng.randint(0, 15) if tier == "thorough" else 0)
    if rng.random() < 0.5:
        build_pair()
    else:
        set_config()
        build_pair()
    excursion = False
    while len(ops) < n_steps:
        r = rng.random()
        if r > 0.93 and len(pop) < (3 if heavy else 6) and not excursion:
            # an object that lives across a configuration change: built and first used
            # under a FINE setting with a displacement far above that eps, asserted later
            # under a COARSE one where the same displacement is <= eps/1000
            jf = rng.choice([9, 10, 11, 12])
            j = jf
            ops.append({"op": rng.choice(["SET_EPS", "SET_SIG"]), "j": jf})
            kk = rng.choice([5, 6, 7])
            b, c = build_pair(base=rng.choice(pop)[0] if pop and rng.random() < 0.5 else None, kk=kk)
            ops.append({"op": "CHECK_NEAR", "a": b, "b": c})
            if rng.random() < 0.5:
                ops.append({"op": "BATTERY"})
            jc = rng.randint(5, kk)
            j = jc
            ops.append({"op": rng.choice(["SET_EPS", "SET_SIG"]), "j": jc})
            ops.append({"op": "CHECK_GETTERS"})
            ops.append({"op": "CHECK_NEAR", "a": b, "b": c})
            continue
        if r < 0.22:
            set_config()
            if pop and rng.random() < 0.7:
                b, c, kk = rng.choice(pop)
                ops.append({"op": "CHECK_NEAR", "a": b, "b": c})
            if rng.random() < 0.5 and len(pop) < (3 if heavy else 6):
                b, c = build_pair(base=rng.choice(pop)[0] if pop and rng.random() < 0.6 else None)
                ops.append({"op": "CHECK_NEAR", "a": b, "b": c})
        elif r < 0.36 and len(pop) < (3 if heavy else 6):
            b, c = build_pair(base=rng.choice(pop)[0] if pop and rng.random() < 0.4 else None)
            ops.append({"op": "CHECK_NEAR", "a": b, "b": c})
        elif r < 0.62 and pop:
            b, c, kk = rng.choice(pop)
            ops.append({"op": "CHECK_NEAR", "a": b, "b": c})
        elif r < 0.66 and pop:
            # both members of a pair are moved, in place, under the current configuration
            b, c, kk = rng.choice(pop)
            v = tuple(F(rng.randint(-8, 8), 8) for _ in range(3))
            ops.append({"op": "MOVE_PAIR", "a": b, "b": c, "v": X.ser(v)})
            ops.append({"op": "CHECK_NEAR", "a": b, "b": c})
        elif r < 0.76:
            ops.append({"op": "CHECK_FAR", "kind": rng.choice(["Point", "Vector"]), "c": X.ser(tuple(F(rng.randint(-64, 64), 8) for _ in range(3))), "coord": rng.randrange(3), "sign": rng.choice([-1, 1]), "mult": rng.choice(["9/2", "5", "5", "8", "100"]), "others": [rng.choice([-1, 0, 0, 1]) for _ in range(3)]})
        elif r < 0.775:
            # constructing objects - also large ones - is not a setter: the configuration
            # must be what the model says afterwards (J1) and Points 5 eps apart unequal (J3)
            ops.append({"op": "BUILD_BIG", "ctor": rng.choice(["Parallelepiped", "Parallelepiped", "Parallelogram", "Cylinder", "Sphere", "Segment"]), "log2": rng.choice([6, 10, 13, 16, 20, 23]), "o": X.ser(tuple(F(rng.randint(-16, 16), 8) for _ in range(3)))})
            ops.append({"op": "CHECK_GETTERS"})
            ops.append({"op": "CHECK_FAR", "kind": rng.choice(["Point", "Vector"]), "c": X.ser(tuple(F(rng.randint(-24, 24), 8) for _ in range(3))), "coord": rng.randrange(3), "sign": rng.choice([-1, 1]), "mult": "5", "others": [0, 0, 0]})
        elif r < 0.80:
            ops.append({"op": "CHECK_DEGENERATE", "ctor": rng.choice(["Segment_PP", "Segment_PV", "HalfLine_PP", "HalfLine_PV", "Line_PP"]), "c": X.ser(tuple(F(rng.randint(-32, 32), 8) for _ in range(3))), "coord": rng.randrange(3), "sign": rng.choice([-1, 1])})
        elif r < 0.84:
            ops.append({"op": "BATTERY"})
        elif r < 0.92:
            if not excursion:
                ops.append({"op": "EXCURSION_BEGIN"})
                excursion = True
                set_config()
            else:
                ops.append({"op": "EXCURSION_END", "via": rng.choice(["eps", "sig"])})
                excursion = False
        else:
            ops.append({"op": "CHECK_GETTERS"})
    if excursion:
        ops.append({"op": "EXCURSION_END", "via": rng.choice(["eps", "sig"])})
    if pop:
        b, c, kk = pop[-1]
        ops.append({"op": "CHECK_NEAR", "a": b, "b": c})
    # who runs: some setters and checks are executed in a helper thread or in a copied context
    for op in ops:
        if op["op"] in ("SET_EPS", "SET_SIG", "CHECK_GETTERS", "CHECK_NEAR", "CHECK_FAR"):
            x = rng.random()
            if x < 0.08:
                op["ctx"] = "thread"
            elif x < 0.13:
                op["ctx"] = "context"
    return {"property": NAME, "ops": ops, "subject_type": typ}


# ------------------------------------------------------------------ execution


class Ctx(object):
    def __init__(self):
        self.chain, self.violations, self.stats, self.detail = [], [], {}, []

    def count(self, key, n=1):
        self.stats[key] = self.stats.get(key, 0) + n

    def event(self, step, what, outcome):
        self.chain.append("%d|%s|%s" % (step, what, outcome))

    def vio(self, step, inv, tail, query, shape, info):
        sig = "C19/%s/%s" % (inv, tail)
        self.count("alarms")
        if len(self.violations) < 40:
            self.violations.append({"step": step, "inv": inv, "sig": sig, "query": query, "shape": shape, "info": info, "side": "world", "probe_type": None})


def run_in(where, fn):
    """execute fn() on the main thread (None), in a helper thread started now and
    joined at once ("thread"), or inside a copy of the current context as asyncio
    tasks do ("context"). Execution stays strictly sequential - the point is WHO runs:
    the tolerance is process-global configuration (the property's own wording), so a
    setter called anywhere must be seen everywhere afterwards."""
    if where == "thread":
        import threading

        box = {}

        def target():
            try:
                box["r"] = fn()
            except BaseException as e:  # re-raised on the main thread
                box["e"] = e

        t = threading.Thread(target=target)
        t.start()
        t.join()
        if "e" in box:
            raise box["e"]
        return box.get("r")
    if where == "context":
        import contextvars

        return contextvars.copy_context().run(fn)
    return fn()


class Model(object):
    """the two-variable reference model"""

    def __init__(self):
        self.eps = F(1, 10 ** 10)
        self.sig = 10
        self.power = True
        self.eps_float = 1e-10

    def set_eps(self, j):
        if j is None:
            self.eps, self.sig, self.power, self.eps_float = F(1, 10 ** 10), 10, True, 1e-10
        elif isinstance(j, str):
            x = float(j[2:])
            self.eps, self.power, self.eps_float = F(j[2:]), False, x
            self.sig = round(-math.log10(x))
        else:
            self.eps, self.sig, self.power, self.eps_float = F(1, 10 ** j), j, True, float(F(1, 10 ** j))

    def set_sig(self, j):
        if j is None:
            j = 10
        self.eps, self.sig, self.power, self.eps_float = F(1, 10 ** j), j, True, float(F(1, 10 ** j))

    def key(self):
        return (self.eps, self.sig)


def _hash_fragile(r, digits):
    """does any quantity the library hashes for this (computed) polygon / polyhedron
    lie within 5 % of a rounding step of a rounding boundary at `digits`?"""
    try:
        faces = [r] if tname(r) == "ConvexPolygon" else list(r.convex_polygons)
        qs = []
        for f in faces:
            n = f.plane.n
            qs += [n[0], n[1], n[2], n * f.plane.p.pv()]
            for p in f.points:
                qs += [p[0], p[1], p[2]]
        return any(float_near_boundary(float(q), digits, 0.05) for q in qs)
    except Exception:
        return True


def _pair_checks(A, B, sa, sb, digits=10, tol=1e-9):
    """the J2 observations on a pair: list of (name, outcome, expected-ok predicate)"""
    G = lib()
    t = tname(A)
    out = []
    out.append(("eq:A==B", call(lambda a, b: a == b, A, B), True))
    out.append(("eq:B==A", call(lambda a, b: a == b, B, A), True))
    out.append(("hash:equal", call(lambda a, b: hash(a) == hash(b), A, B), True))
    out.append(("hash:set_merges", call(lambda a, b: len({a, b}) == 1, A, B), True))
    if t == "Vector":
        out.append(("parallel:A.parallel(B)", call(lambda a, b: a.parallel(b), A, B), True))
        out.append(("eq:(A-B)==zero", call(lambda a, b: (a - b) == G.Vector.zero(), A, B), True))
        r = call(lambda a, b: a.orthogonal(b), A, B)
        out.append(("orthogonal:A.orthogonal(B)", True if r is False else (r if isinstance(r, Raised) else "T"), True))
    if t in ("Line", "Plane"):
        out.append(("parallel:f(A,B)", call(G.parallel, A, B), True))
        out.append(("parallel:f(B,A)", call(G.parallel, B, A), True))
        r = call(G.orthogonal, A, B)
        out.append(("orthogonal:f(A,B)", True if r is False else (r if isinstance(r, Raised) else "T"), True))
    if t in ("Segment", "HalfLine"):
        # whole-object containment follows from "contain each other's points"
        out.append(("in:A_in_B", call(lambda a, b: a in b, A, B), True))
        out.append(("in:B_in_A", call(lambda a, b: a in b, B, A), True))
    if t == "ConvexPolygon":
        # the edges of one lie in the other (Segment in ConvexPolygon)
        out.append(("in:edgesB_in_A", call(lambda a, b: all((s in a) is True for s in b.segments()), A, B), True))
        out.append(("in:edgesA_in_B", call(lambda a, b: all((s in a) is True for s in b.segments()), B, A), True))
    if t == "ConvexPolyhedron":
        # faces and edges of one lie in the other (ConvexPolygon / Segment in ConvexPolyhedron)
        for nm, x, y in (("in:partsB_in_A", A, B), ("in:partsA_in_B", B, A)):
            out.append((nm, call(lambda a, b: all((f in a) is True for f in b.convex_polygons) and all((s in a) is True for s in sorted(b.segment_set, key=repr)), x, y), True))
    if t == "ConvexPolygon":
        out.append(("eqn:A.eq_with_normal(B)", call(lambda a, b: a.eq_with_normal(b), A, B), True))
        out.append(("eqn:B.eq_with_normal(A)", call(lambda a, b: a.eq_with_normal(b), B, A), True))
    if t != "Vector":
        for nm, spec, other in (("in:ptsA_in_B", sa, B), ("in:ptsB_in_A", sb, A)):
            pts = def_points(spec)
            if t == "Point" or not pts:
                continue
            res = True
            for p in pts:
                r = call(lambda q, o: q in o, build({"t": "Point", "form": "xyz", "p": X.ser(p), "ints": False}), other)
                if r is not True:
                    res = r
                    break
            out.append((nm, res, True))
        for nm, x, y in (("inter:f(A,B)", A, B), ("inter:f(B,A)", B, A)):
            r = call(G.intersection, x, y)
            kind_ok = tname(r) == t
            if kind_ok and t in ("ConvexPolygon", "ConvexPolyhedron") and _hash_fragile(r, digits):
                # the result is built from a MIXTURE of vertices of A and A': its plane
                # (normal from whichever three of them come first, offset from whichever
                # base point) is a computed quantity that admit() cannot bound; when it
                # lands near a rounding boundary the hash-based == is undecidable by the
                # property's own standard - the point sets must still coincide
                ok = same(r, A, tau=tol) and same(r, B, tau=tol)
                out.append((nm + "~", True if ok else "%s,close:F" % disc(r), True))
                continue
            e1 = call(lambda a, b: a == b, r, A) if kind_ok else None
            e2 = call(lambda a, b: a == b, r, B) if kind_ok else None
            ok = kind_ok and e1 is True and e2 is True
            out.append((nm, True if ok else "%s,==A:%s,==B:%s" % (disc(r), disc(e1), disc(e2)), True))
    return out


def _cross_objects(sa):
    """third objects C in general position w.r.t. the catalogue object A (frame
    directions are mutually orthogonal): specs, exact"""
    t = sa["t"]
    if t in ("Point", "Vector") or "f1" not in sa:
        return []
    f1, f2, f3 = X.vec(sa["f1"]), X.vec(sa["f2"]), X.vec(sa["f3"])
    L = lambda a, d: {"t": "Line", "form": "PV", "a": X.ser(a), "b": X.ser(d), "ints": False}
    S = lambda a, d: {"t": "Segment", "form": "PV", "a": X.ser(X.sub(a, d)), "b": X.ser(X.mul(F(2), d)), "ints": False}
    out = []
    H = lambda a, d: {"t": "HalfLine", "form": "PV", "a": X.ser(a), "b": X.ser(d), "ints": False}
    SG = lambda a, b: {"t": "Segment", "form": "PP", "a": X.ser(a), "b": X.ser(b), "ints": False}
    if t in ("Line", "Segment", "HalfLine"):
        a, d = X.carrier(sa)
        other = [f for f in (f1, f2, f3) if not X.parallel(f, d)]
        for f in other[:2]:
            out.append(("cross:line", L(a, f)))
        out.append(("cross:segment", S(X.add(a, d), other[0])))
        # collinear partners of another type: coincidence across types
        out.append(("cross:collinear_halfline", H(a, d)))
        out.append(("cross:collinear_halfline_back", H(X.add(a, d), X.mul(F(-1), d))))
        out.append(("cross:collinear_segment", SG(X.sub(a, d), X.add(a, X.mul(F(2), d)))))
        out.append(("cross:collinear_segment_inside", SG(X.add(a, X.mul(F(1, 4), d)), X.add(a, X.mul(F(3, 4), d)))))
        out.append(("cross:collinear_line", L(X.add(a, d), X.mul(F(-2), d))))
    elif t == "Plane":
        a, n = X.carrier(sa)
        inpl = [f for f in (f1, f2, f3) if X.dot(f, n) == 0]
        out.append(("cross:line", L(a, n)))
        if inpl:
            out.append(("cross:line_in", L(a, inpl[0])))
            out.append(("cross:segment", S(a, X.add(n, inpl[0]))))
    elif t == "ConvexPolygon":
        vs = X.vertices(sa)
        n = X.cross(X.sub(vs[1], vs[0]), X.sub(vs[2], vs[0]))
        for k in range(3, len(vs)):
            if not X.is_zero(n):
                break
            n = X.cross(X.sub(vs[1], vs[0]), X.sub(vs[k], vs[0]))
        n = X._primitive(n)
        mid = X.mul(F(1, 2), X.add(vs[0], vs[2 if len(vs) > 3 else 1]))
        out.append(("cross:line", L(mid, n)))
        out.append(("cross:segment", S(vs[0], n)))
        out.append(("cross:line_in", L(vs[0], X.sub(vs[1], vs[0]))))
        # a coplanar copy shifted by half an edge: collinear overlapping edges, shared boundary
        if sa.get("form") == "pts":
            sh = X.mul(F(1, 2), X.sub(vs[1], vs[0]))
            out.append(("cross:coplanar_polygon", {"t": "ConvexPolygon", "form": "pts", "pts": [X.ser(X.add(p, sh)) for p in vs], "neg": False, "container": "tuple", "ints": False}))
            out.append(("cross:plane_of", {"t": "Plane", "form": "PV", "a": X.ser(vs[0]), "n": X.ser(n), "ints": False}))
    elif t == "ConvexPolyhedron":
        vs = X.vertices(sa)
        c = X.mul(F(1, 2), X.add(vs[0], vs[-1]))  # centre of a box (opposite corners)
        out.append(("cross:line", L(c, f1)))
        out.append(("cross:segment", S(c, X.mul(F(1, 8), f2))))
        if sa.get("form") == "ppiped":
            # the same box shifted by half its first edge: four coplanar overlapping faces
            o, u = X.vec(sa["o"]), X.vec(sa["u"])
            out.append(("cross:overlapping_box", dict(sa, o=X.ser(X.add(o, X.mul(F(1, 2), u))))))
            out.append(("cross:face_plane", {"t": "Plane", "form": "PV", "a": X.ser(o), "n": X.ser(u), "ints": False}))
    return out


def _result_coords(r):
    n = tname(r)
    try:
        if n == "Point":
            return list(r)
        if n == "Segment":
            return list(r.start_point) + list(r.end_point)
        if n == "HalfLine":
            return list(r.point)
        if n == "ConvexPolygon":
            return [c for p in r.points for c in p]
        if n == "ConvexPolyhedron":
            return [c for p in r.point_set for c in p]
    except Exception:
        pass
    return []


def _cross_checks(A, B, sa, M):
    """J2 substitution: a third object meets A and its eps/1000 companion alike.

    "Alike" = the same kind of result, and the same point set within 10 eps. The
    library's own == is NOT used here: for polygons and polyhedra it is hash
    equality, and the vertices of these results are *computed* intersection points
    whose decimals the property's catalogue does not protect from rounding
    boundaries (its quantifier only covers the catalogue objects' own hashed
    quantities). When a result coordinate of either side lies within 5 % of a
    rounding step of a boundary at the current digits, vertex merging inside the
    handler is itself boundary-sensitive and only the kind is compared."""
    G = lib()
    out = []
    tol = 10 * M.eps_float
    for name, cs in _cross_objects(sa):
        C1, C2 = call(build, cs), call(build, cs)
        if isinstance(C1, Raised):
            continue
        r0, r1 = call(G.intersection, A, C1), call(G.intersection, B, C2)
        if isinstance(r0, Raised) or r0 is None:
            # the catalogue object itself has no clean answer here: nothing to compare
            out.append((name, True, True))
            continue
        if tname(r0) != tname(r1):
            out.append((name, "A:%s,B:%s" % (disc(r0), disc(r1)), True))
            continue
        fragile = any(float_near_boundary(x, M.sig, 0.05) for x in _result_coords(r0) + _result_coords(r1))
        if fragile:
            out.append((name + "~", True, True))
            continue
        ok = same(r0, r1, tau=tol)
        out.append((name, True if ok else "A:%s,B:%s,close:F" % (disc(r0), disc(r1)), True))
    return out


def _battery(world, ids):
    """a fixed list of queries on given objects; answers as comparable values"""
    G = lib()
    out = []
    objs = [(i, world[i]["obj"]) for i in ids if i in world]
    for i, o in objs:
        out.append(("hash_self_consistent:%s" % i, call(lambda a: hash(a) == hash(copy.deepcopy(a)), o)))
    for (i, a), (j, b) in zip(objs, objs[1:]):
        out.append(("eq:%s,%s" % (i, j), call(lambda x, y: x == y, a, b)))
        out.append(("hasheq:%s,%s" % (i, j), call(lambda x, y: hash(x) == hash(y), a, b)))
        if tname(a) != "Vector" and tname(b) != "Vector":
            out.append(("inter:%s,%s" % (i, j), call(G.intersection, a, b)))
            out.append(("in:%s,%s" % (i, j), call(lambda x, y: x in y, a, b)))
        if tname(a) == tname(b) == "ConvexPolyhedron":
            out.append(("parts:%s,%s" % (i, j), call(lambda x, y: [(f in y) is True for f in x.convex_polygons] + [(sg in y) is True for sg in sorted(x.segment_set, key=repr)], a, b)))
        if tname(a) == tname(b) == "ConvexPolygon":
            out.append(("parts:%s,%s" % (i, j), call(lambda x, y: [(sg in y) is True for sg in x.segments()], a, b)))
    return out


def execute(history, opts=None):
    G = lib()
    ctx = Ctx()
    ctx.fd = None
    if opts and opts.get("float_digest"):
        import hashlib

        ctx.fd = hashlib.sha256()
    ops = history["ops"]
    G.set_eps()  # every history starts from the default configuration
    M = Model()
    world = {}
    exc = None  # (model key, ids, answers)
    try:
        for step, op in enumerate(ops, 1):
            kind = op["op"]
            ctx.count("op:" + kind)
            where = op.get("ctx")
            if where:
                ctx.count("executed_in:" + where)
            if kind in ("SET_EPS", "SET_SIG"):
                j = op["j"]
                if kind == "SET_EPS":
                    M.set_eps(j)
                    r = run_in(where, lambda: call(G.set_eps) if j is None else call(G.set_eps, M.eps_float))
                    ctx.count("setter:set_eps" + ("()" if j is None else ("(nonpower)" if isinstance(j, str) else "")))
                else:
                    M.set_sig(j)
                    r = run_in(where, lambda: call(G.set_sig_figures) if j is None else call(G.set_sig_figures, j))
                    ctx.count("setter:set_sig_figures" + ("()" if j is None else ""))
                ctx.count("config:j=%s" % (M.sig if M.power else "nonpower"))
                if isinstance(r, Raised):
                    ctx.vio(step, "J1", "setter_raised/%s" % kind, kind, disc(r), {"j": j})
                _getters(ctx, step, G, M)
                ctx.event(step, kind, str(j))
            elif kind == "CHECK_GETTERS":
                run_in(where, lambda: _getters(ctx, step, G, M))
                ctx.event(step, kind, "ok")
            elif kind == "BUILD":
                if "spec" in op:
                    spec = op["spec"]
                    base, kk = None, None
                else:
                    b = world.get(op["base"])
                    if b is None:
                        ctx.event(step, kind, "noop")
                        continue
                    kk = op["k"]
                    signs = op["signs"]
                    spec = displace(b["spec0"], delta_of(kk), signs)
                    base = op["base"]
                o = call(build, spec)
                if isinstance(o, Raised):
                    ctx.count("build_raised")
                    # a companion within eps/1000 of a valid catalogue object, built under the
                    # current setting, is itself a valid object: the constructors compare with
                    # the current tolerance (planarity, identical points, face orientation)
                    if base is not None and M.power and kk is not None and kk >= M.sig:
                        ctx.vio(step, "J2", "build/%s" % spec["t"], "ctor:companion", "%s->%s" % (spec["t"], disc(o)), {"j": M.sig, "k": kk, "got": detail(o), "base": op.get("base")})
                    ctx.event(step, kind, "!" + o.cls)
                    continue
                world[op["id"]] = {"obj": o, "spec": spec, "spec0": spec if base is None else world[base]["spec0"], "base": base, "k": kk, "built": M.key()}
                ctx.count("build:%s" % spec["t"])
                ctx.event(step, kind, tname(o))
            elif kind == "MOVE_PAIR":
                a, b = world.get(op["a"]), world.get(op["b"])
                if a is None or b is None or a["spec"]["t"] == "Vector":
                    ctx.event(step, kind, "noop")
                    continue
                v = X.vec(op["v"])
                outs = []
                for ent in (a, b):
                    r = call(lambda o: o.move(G.Vector(*[float(x) for x in v])), ent["obj"])
                    outs.append(disc(r))
                    if isinstance(r, Raised):
                        # a companion displaced by more than the *current* eps/1000 need not be a
                        # valid object at this tolerance (e.g. no longer planar): only assertable pairs alarm
                        kk = b["k"]
                        if ent is a or (M.power and kk is not None and kk >= M.sig and admit(a["spec"], b["spec"], M.sig)[0]):
                            ctx.vio(step, "J2", "move/%s" % ent["spec"]["t"], "move", "obj->%s" % disc(r), {"j": M.sig if M.power else None, "got": detail(r)})
                        else:
                            ctx.count("move_raised_unasserted")
                        b["stale_pair"] = True
                    ent["spec"] = X.translate(ent["spec"], v)
                a["spec0"] = a["spec"]
                # other companions of a moved base no longer pair with it: forget their link
                for ent in world.values():
                    if ent is not b and ent.get("base") == op["a"]:
                        ent["stale_pair"] = True
                a["moved"] = a.get("moved", 0) + 1
                b["moved"] = b.get("moved", 0) + 1
                ctx.count("pairs_moved")
                ctx.event(step, kind, ",".join(outs))
            elif kind == "CHECK_NEAR":
                a, b = world.get(op["a"]), world.get(op["b"])
                if a is None or b is None or b.get("stale_pair"):
                    ctx.event(step, kind, "noop")
                    continue
                run_in(where, lambda: _check_near(ctx, step, M, a, b))
            elif kind == "CHECK_FAR":
                run_in(where, lambda: _check_far(ctx, step, G, M, op))
            elif kind == "BUILD_BIG":
                L = float(2 ** op["log2"])
                o = G.Point(*[float(F(x)) for x in op["o"]])
                c = op["ctor"]
                if c == "Parallelepiped":
                    r = call(G.Parallelepiped, o, G.Vector(L, 0, 0), G.Vector(0, L, 0), G.Vector(0, 0, L))
                elif c == "Parallelogram":
                    r = call(G.Parallelogram, o, G.Vector(L, 0, 0), G.Vector(0, L, 0))
                elif c == "Cylinder":
                    r = call(G.Cylinder, o, L, G.Vector(0, 0, L), 6)
                elif c == "Sphere":
                    r = call(G.Sphere, o, L, 6, 2)
                else:
                    r = call(G.Segment, o, G.Vector(L, L, 0))
                ctx.count("big_builds")
                ctx.event(step, kind, disc(r))
            elif kind == "CHECK_DEGENERATE":
                _check_degenerate(ctx, step, G, M, op)
            elif kind == "BATTERY":
                ids = sorted(world)[:8]
                res = _battery(world, ids)
                if ctx.fd is not None:
                    for _, r in res:
                        ctx.fd.update(detail(r).encode())
                ctx.count("battery_queries", len(res))
                ctx.event(step, kind, ",".join(disc(r) for _, r in res))
            elif kind == "EXCURSION_BEGIN":
                ids = sorted(world)[:8]
                exc = (M.key(), (M.eps_float, M.sig, M.power), ids, _battery(world, ids), {i: world[i].get("moved", 0) for i in ids})
                ctx.event(step, kind, "%d" % len(ids))
            elif kind == "EXCURSION_END":
                if exc is None:
                    ctx.event(step, kind, "noop")
                    continue
                key, (ef, sg, pw), ids, before, vers = exc
                exc = None
                # restore through either setter (a non-power eps only through set_eps)
                if op.get("via") == "sig" and pw:
                    call(G.set_sig_figures, sg)
                    M.set_sig(sg)
                else:
                    call(G.set_eps, ef)
                    M.eps, M.sig, M.power, M.eps_float = key[0], key[1], pw, ef
                _getters(ctx, step, G, M)
                after = _battery(world, ids)
                ctx.count("excursions_completed")
                bad = []
                touched = set(i for i in ids if world[i].get("moved", 0) != vers[i])
                for (n1, r1), (n2, r2) in zip(before, after):
                    if touched & set(n1.split(":", 1)[1].split(",")):
                        continue  # the object itself was moved during the excursion
                    ctx.count("J4_checks")
                    if disc(r1) != disc(r2) or not same(r1, r2):
                        bad.append((n1, r1, r2))
                for n1, r1, r2 in bad[:3]:
                    q = n1.split(":")[0]
                    ta = tname(world[ids[0]]["obj"]) if ids else "-"
                    ctx.vio(step, "J4", "%s/%s" % (q, ta), n1, "%s->%s" % (disc(r1), disc(r2)), {"before": detail(r1), "after": detail(r2), "config": [str(key[0]), key[1]]})
                # J4b: the restored behaviour is that of objects which never saw the excursion:
                # freshly built twins (same exact specs) must answer the battery like the
                # survivors do now
                tw = {}
                for i in ids:
                    # a moved survivor carries (p + delta) + v rounded in floating point, its
                    # twin float(p + delta + v): one ulp apart, which matters for battery
                    # entries that sit at the tolerance threshold - only never-moved objects
                    if i in touched or world[i].get("moved", 0):
                        continue
                    o = call(build, world[i]["spec"])
                    if not isinstance(o, Raised):
                        tw[i] = {"obj": o}
                twin_ans = dict(_battery(tw, [i for i in ids if i in tw]))
                nb = 0
                def well_conditioned(names):
                    # survivors carry sets whose members were hashed under the configuration
                    # they were built in, twins under the current one: iteration order inside
                    # the handlers differs, which is harmless for answers the property
                    # determines (one object; a pair within eps/1000 at the current setting)
                    # and decisive for pairs inside the tolerance band (e.g. 100 eps apart),
                    # which the property's domain excludes
                    if len(names) == 1:
                        return True
                    x, y = world.get(names[0]), world.get(names[1])
                    if x is None or y is None or not M.power:
                        return False
                    for base, comp in ((x, y), (y, x)):
                        if comp.get("base") is not None and world.get(comp["base"]) is base and comp.get("k") is not None and comp["k"] >= M.sig:
                            return True
                    return False

                for n1, r2 in after:
                    names = n1.split(":", 1)[1].split(",")
                    if n1 not in twin_ans or touched & set(names) or not well_conditioned(names):
                        continue
                    ctx.count("J4_twin_checks")
                    r3 = twin_ans[n1]
                    if disc(r2) != disc(r3) or not same(r2, r3):
                        nb += 1
                        if nb <= 2:
                            q = n1.split(":")[0]
                            ta = tname(world[ids[0]]["obj"]) if ids else "-"
                            ctx.vio(step, "J4", "twin/%s/%s" % (q, ta), n1, "%s->%s" % (disc(r3), disc(r2)), {"survivor": detail(r2), "fresh_twin": detail(r3), "config": [str(key[0]), key[1]]})
                ctx.event(step, kind, "%d/%d" % (len(after) - len(bad), len(after)))
            else:
                ctx.event(step, kind, "unknown-op")
        _ladder(ctx, len(ops) + 1, G)
    finally:
        G.set_eps()
    return _result(ctx, history)


_LADDER_T = [10.0 ** -k for k in range(0, 14)]


def _ladder(ctx, step, G):
    """J6 (epilogue of every history, no PRNG draw): the angular comparisons
    Vector.parallel / Vector.orthogonal follow the setters.  Their tolerance is
    not linear in a coordinate displacement (parallel is quadratic in the angle),
    so no eps/1000 or 4-eps pair of the property's quantifier can tell a live
    read from a stale one (per-site sweep, DESIGN 9.6).  Formula-free oracle: on
    a ladder of deviations t = 1 .. 1e-13 the answer for a fixed pair must be
    monotone in eps (loosening never turns True into False) and the answers at
    eps = 1e-12 and eps = 1e-5 must differ for at least one rung - any tolerance
    that follows eps moves its threshold by several decades over that range."""
    V = G.Vector
    fams = {
        "parallel": [(lambda t: (V(2.0, 0.0, 0.0), V(1.0, t, 0.0))), (lambda t: (V(1.0, 2.0, 2.0), V(1.0 + 2 * t, 2.0 + t, 2.0 - 2 * t)))],
        "orthogonal": [(lambda t: (V(2.0, 0.0, 0.0), V(t, 1.0, 0.0))), (lambda t: (V(1.0, 2.0, 2.0), V(2.0 + t, 1.0 + 2 * t, -2.0 + 2 * t)))],
    }
    table = {}
    for j in range(12, 4, -1):
        r = call(G.set_eps, float(F(1, 10 ** j))) if j % 2 == 0 else call(G.set_sig_figures, j)
        if isinstance(r, Raised):
            ctx.vio(step, "J6", "ladder/setter_raised", "ladder", disc(r), {"j": j})
            return
        for q, makers in fams.items():
            row = []
            for mk in makers:
                for t in _LADDER_T:
                    a, b = mk(t)
                    row.append(call(lambda x, y: getattr(x, q)(y), a, b))
                    row.append(call(lambda x, y: getattr(x, q)(y), b, a))
            table[(q, j)] = row
    for q in fams:
        ctx.count("J6_checks")
        rows = [table[(q, j)] for j in range(12, 4, -1)]
        if any(not isinstance(x, bool) for row in rows for x in row):
            bad = [disc(x) for row in rows for x in row if not isinstance(x, bool)][:1]
            ctx.vio(step, "J6", "ladder/%s" % q, q, "bool->%s" % bad[0], {})
            continue
        mono = all((not lo) or hi for r1, r2 in zip(rows, rows[1:]) for lo, hi in zip(r1, r2))
        responsive = rows[0] != rows[-1]
        if not mono:
            ctx.vio(step, "J6", "ladder/%s" % q, q, "not-monotone-in-eps", {"at_1e-12": rows[0], "at_1e-5": rows[-1]})
        elif not responsive:
            ctx.vio(step, "J6", "ladder/%s" % q, q, "same-answers-at-1e-12-and-1e-5", {"answers": rows[0]})
    ctx.event(step, "LADDER", "".join("1" if x is True else "0" for x in table[("parallel", 12)][:8]))


def _getters(ctx, step, G, M):
    e, s = call(G.get_eps), call(G.get_sig_figures)
    ctx.count("J1_checks")
    ok_e = (not isinstance(e, Raised)) and e == M.eps_float
    ok_s = (not isinstance(s, Raised)) and s == M.sig and isinstance(s, int)
    rel = ok_e and ok_s and s == round(-math.log10(e))
    if not ok_e:
        ctx.vio(step, "J1", "get_eps", "get_eps", "%s!=%s" % (detail(e), M.eps_float), {"model_eps": str(M.eps), "model_sig": M.sig})
    if not ok_s:
        ctx.vio(step, "J1", "get_sig_figures", "get_sig_figures", "%s!=%s" % (detail(s), M.sig), {"model_eps": str(M.eps), "model_sig": M.sig})
    if ok_e and ok_s and not rel:
        ctx.vio(step, "J1", "relation", "getters", "sig != round(-log10(eps))", {"eps": e, "sig": s})


def _check_near(ctx, step, M, a, b):
    A, B = a["obj"], b["obj"]
    t = tname(A)
    kk = b["k"] if b["k"] is not None else a["k"]
    if not M.power or kk is None:
        ctx.count("near_skipped_nonpower")
        ctx.event(step, "CHECK_NEAR", "skip-nonpower")
        return
    j = M.sig
    # displacement 10^-k/1000; asserted when <= eps/1000 (k >= j), and for eps/100 (k == j-1)
    if kk < j - 1:
        res = _pair_checks(A, B, a["spec"], b["spec"])
        ctx.count("near_unasserted_large_displacement")
        ctx.event(step, "CHECK_NEAR", "unasserted:" + ",".join(disc(r) if not isinstance(r, str) else r for _, r, _ in res))
        return
    if kk == j - 1 and t in ("ConvexPolygon", "ConvexPolyhedron"):
        # eps/100: the plane of a result polygon is computed from a mixture of vertices of
        # A and A'; its amplification is not bounded by admit() at this displacement
        ctx.count("near_unasserted_eps100_composite")
        ctx.event(step, "CHECK_NEAR", "unasserted-eps100")
        return
    ok, why = admit(a["spec"], b["spec"], j)
    if not ok:
        ctx.count("near_inadmissible:" + why)
        ctx.event(step, "CHECK_NEAR", "inadmissible")
        return
    res = _pair_checks(A, B, a["spec"], b["spec"], j, 10 * M.eps_float) + _cross_checks(A, B, a["spec"], M)
    ctx.count("J2_pairs")
    ctx.count("J2_pairs:%s:j=%d" % (t, j))
    if a["built"] != M.key() or b["built"] != M.key():
        ctx.count("J2_pairs_built_under_other_config")
    ctx.count("state:%s/builtA=%s/builtB=%s/check=%d/k=%d/moved=%d" % (t, a["built"][1], b["built"][1], j, kk, min(a.get("moved", 0), 2)))
    outs = []
    for name, r, want in res:
        ctx.count("J2_assertions")
        if name.endswith("~"):
            ctx.count("computed_results_near_rounding_boundary")
        ctx.count("cell:%s:%s:j=%d" % (t, name.split(":")[0], j))
        outs.append("T" if r is True else "#")
        if r is True:
            continue
        ctx.vio(
            step, "J2", "%s/%s" % (name.split(":")[0], t), name, "True->%s" % (disc(r) if not isinstance(r, str) else r),
            {"j": j, "k": kk, "A": a["spec"], "B_signs_k": [b["k"]], "built_A": [str(a["built"][0]), a["built"][1]], "built_B": [str(b["built"][0]), b["built"][1]], "got": detail(r)},
        )
    ctx.event(step, "CHECK_NEAR", "".join(outs))


def _check_far(ctx, step, G, M, op):
    if not M.power:
        ctx.event(step, "CHECK_FAR", "skip-nonpower")
        return
    c = X.vec(op["c"])
    d = list(c)
    # one coordinate differs by more than 4 eps (4.5 .. 100 eps), the others by at most eps/1000
    for i, sg in enumerate(op.get("others", [0, 0, 0])):
        d[i] = d[i] + sg * M.eps / 1000
    d[op["coord"]] = c[op["coord"]] + op["sign"] * F(op.get("mult", "5")) * M.eps
    cls = G.Point if op["kind"] == "Point" else G.Vector
    p, q = cls(*[float(x) for x in c]), cls(*[float(x) for x in d])
    r1, r2 = call(lambda a, b: a == b, p, q), call(lambda a, b: a == b, q, p)
    ctx.count("J3_checks")
    ctx.count("cell:%s:far:j=%d" % (op["kind"], M.sig))
    for r in (r1, r2):
        if r is not False:
            ctx.vio(step, "J3", "eq/%s" % op["kind"], "eq:far", "False->%s" % disc(r), {"j": M.sig, "c": op["c"], "coord": op["coord"]})
            break
    ctx.event(step, "CHECK_FAR", disc(r1) + disc(r2))


def _check_degenerate(ctx, step, G, M, op):
    """constructors compare their arguments with the current tolerance: two Points
    within eps/1000 (a Vector shorter than eps/1000) are "identical" and must be
    refused, 5 eps apart they are distinct and must be accepted"""
    if not M.power:
        ctx.event(step, "CHECK_DEGENERATE", "skip-nonpower")
        return
    c = X.vec(op["c"])
    outs = []
    for label, mult, want_raise in (("near", F(1, 1000), True), ("far", F(5), False)):
        d = [F(0), F(0), F(0)]
        d[op["coord"]] = op["sign"] * mult * M.eps
        P0 = G.Point(*[float(x) for x in c])
        P1 = G.Point(*[float(x + y) for x, y in zip(c, d)])
        Vd = G.Vector(*[float(x) for x in d])
        ctor = op["ctor"]
        if ctor == "Segment_PP":
            r = call(G.Segment, P0, P1)
        elif ctor == "Segment_PV":
            r = call(G.Segment, P0, Vd)
        elif ctor == "HalfLine_PP":
            r = call(G.HalfLine, P0, P1)
        elif ctor == "HalfLine_PV":
            r = call(G.HalfLine, P0, Vd)
        else:
            r = call(G.Line, P0, P1)
        ctx.count("J5_checks")
        ctx.count("cell:%s:degenerate_%s:j=%d" % (ctor, label, M.sig))
        raised = isinstance(r, Raised)
        outs.append(disc(r))
        if raised != want_raise or (raised and r.cls != "ValueError"):
            ctx.vio(step, "J5", "%s/%s" % (label, ctor), "ctor:" + label, "%s->%s" % ("ValueError" if want_raise else ctor.split("_")[0], disc(r)), {"j": M.sig, "c": op["c"], "coord": op["coord"]})
    ctx.event(step, "CHECK_DEGENERATE", ",".join(outs))


def _result(ctx, history):
    import hashlib

    h = hashlib.sha256()
    for line in ctx.chain:
        h.update(line.encode())
        h.update(b"\n")
    ops = history["ops"]
    nondefault = False
    nontrivial = False
    for op in ops:
        if op["op"] in ("SET_EPS", "SET_SIG"):
            nondefault = op["j"] not in (None, 10)
        elif op["op"] in ("CHECK_NEAR", "CHECK_FAR", "CHECK_DEGENERATE", "CHECK_GETTERS", "BATTERY") and nondefault:
            nontrivial = True
    kinds = [o["op"] for o in ops]
    return {
        "chain": h.hexdigest(),
        "events": ctx.chain,
        "violations": ctx.violations,
        "stats": ctx.stats,
        "detail": ctx.detail,
        "float_digest": ctx.fd.hexdigest() if getattr(ctx, "fd", None) is not None else None,
        "nontrivial": nontrivial,
        "steps": len(ops),
        "shape": ">".join(k[0] + k[-1] for k in kinds),
    }


def simplify_candidates(history):
    ops = history["ops"]
    for i, op in enumerate(ops):
        if op["op"] == "BUILD" and "signs" in op:
            nz = [n for n, s in enumerate(op["signs"]) if s]
            if len(nz) > 1:
                for n in nz:
                    new = copy.deepcopy(history)
                    new["ops"][i]["signs"][n] = 0
                    yield new
