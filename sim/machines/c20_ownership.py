"""C20 - queries are pure and composite objects own their data.

Shared-heap interference simulation (DESIGN 4.3). An owner builds composites
from shared leaf objects and asks queries; a mutator changes leaves and
composites in place at instants the seed decides. The reference model is a
version map: only an explicit MUTATE bumps a version, the snapshot of an
object changes iff its version does, and an answer is a function of
(query, operand versions).
"""
import copy
from fractions import Fraction as F

from .. import exactspec as X
from ..build import build, num
import os
import pickle

from ..compare import Raised, call, detail, disc, disc_data, mutable_ids, same, same_data, snap_key, snapshot, tname, to_data
from ..libenv import lib

NAME = "C20"

GEO = ("Point", "Line", "Plane", "Segment", "HalfLine", "ConvexPolygon", "ConvexPolyhedron")
OWNING = ("Point", "Segment", "HalfLine", "ConvexPolygon", "ConvexPolyhedron")
PAIR_Q = ("inter_f", "inter_m", "in", "distance", "angle", "parallel", "orthogonal", "eq")
AUX_Q = ("aux_segment_from_points", "aux_points_in_a_line")  # public helpers of calc.aux_calc, operands: Points
NESTED_Q = ("inter_nested",)  # intersection(intersection(a, b), c): an uncopied result is fed straight into a query
SELF_Q = ("hash", "repr", "length", "area", "volume", "volume_fn")


METHOD_FORM_Q = ("distance", "angle", "parallel", "orthogonal")
METHOD_FORM_COUNT = {}  # per process, reported through the run statistics


def _method_form(a, b):
    return sum(ord(ch) for ch in str(a) + "/" + str(b)) % 2 == 1


def _q(name):
    G = lib()
    return {
        "inter_f": lambda a, b: G.intersection(a, b),
        "inter_m": lambda a, b: a.intersection(b),
        "in": lambda a, b: a in b,
        "distance": lambda a, b: G.distance(a, b),
        "angle": lambda a, b: G.angle(a, b),
        "parallel": lambda a, b: G.parallel(a, b),
        "orthogonal": lambda a, b: G.orthogonal(a, b),
        "eq": lambda a, b: a == b,
        "hash": lambda a: "h%d" % hash(a),
        "repr": lambda a: isinstance(repr(a), str),
        "length": lambda a: a.length(),
        "area": lambda a: a.area(),
        "volume": lambda a: a.volume(),
        "volume_fn": lambda a: G.volume(a),
        "aux_segment_from_points": lambda *pts: G.get_segment_from_point_list(list(pts)),
        "aux_points_in_a_line": lambda *pts: G.points_in_a_line(list(pts)),
        "inter_nested": lambda a, b, c: G.intersection(G.intersection(a, b), c),
    }[name]


# ------------------------------------------------------------------ generation


class GenModel(object):
    """what the generator knows about the world without running the library"""

    def __init__(self, rng):
        self.rng = rng
        self.ops = []
        self.ent = {}  # id -> {"t": type or "?", "kind": leaf/composite/result/copy, "coords":..., "mut": bool}
        self.n = 0
        self.queries = []  # indices into ops of QUERY ops
        self.groups = []  # {"leaves": [...], "dirty": bool, "kind": polygon/body, "faces": [[ids]]}
        self.center = X.rnd_lattice(rng, 2, 2)

    def nid(self, prefix):
        self.n += 1
        return "%s%d" % (prefix, self.n)

    def near(self):
        r = self.rng
        return X.add(self.center, tuple(F(r.randint(-4, 4), 2) for _ in range(3)))

    def leaf(self, kind, c=None):
        i = self.nid("p" if kind == "P" else "v")
        if c is None:
            c = self.near() if kind == "P" else X.mul(F(self.rng.choice([1, 1, 2]), self.rng.choice([1, 2])), X.rnd_dir(self.rng, 2))
        self.ops.append({"op": "NEW_LEAF", "id": i, "kind": kind, "c": X.ser(c), "ints": self.rng.random() < 0.15})
        self.ent[i] = {"t": "Point" if kind == "P" else "Vector", "kind": "leaf", "c": c, "mut": True}
        return i

    def ids(self, pred):
        return [i for i, e in self.ent.items() if pred(e)]

    def build(self, ctor, args, t, **kw):
        i = self.nid("o")
        op = {"op": "BUILD", "id": i, "ctor": ctor, "args": list(args)}
        op.update(kw)
        self.ops.append(op)
        self.ent[i] = {"t": t, "kind": "composite", "from": list(args), "mut": True}
        return i

    def private(self, t):
        """exempt constructions (Plane keeps the caller's Point, Line(P,V) the
        caller's Vector): built from private data that is never a mutation target"""
        r = self.rng
        i = self.nid("x")
        anchor_ids = self.ids(lambda e: e["kind"] == "leaf" and e["t"] == "Point")
        a = self.ent[r.choice(anchor_ids)]["c"] if anchor_ids and r.random() < 0.7 else self.near()
        if t == "Plane":
            spec = {"t": "Plane", "form": r.choice(["PV", "PV", "PVV"]), "a": X.ser(a), "ints": False}
            if spec["form"] == "PV":
                spec["n"] = X.ser(r.choice(list(X.AXES) + [X.rnd_dir(r, 2)]))
            else:
                u, w = X.rnd_frame2(r)
                spec["u"], spec["w"] = X.ser(u), X.ser(w)
        else:
            spec = {"t": "Line", "form": r.choice(["PV", "VV"]), "a": X.ser(a), "b": X.ser(r.choice(list(X.AXES) + [X.rnd_dir(r, 2)])), "ints": False}
        self.ops.append({"op": "BUILD", "id": i, "ctor": "private", "spec": spec, "args": []})
        self.ent[i] = {"t": t, "kind": "composite", "from": [], "mut": True}
        return i

    def aux_query(self):
        """three collinear shared Points (the middle one first, so that the helper
        must extend the segment backwards from its first argument) -> aux helper"""
        r = self.rng
        a = self.near()
        d = X.mul(F(r.choice([1, 1, 2]), 2), X.rnd_dir(r, 2))
        ks = [F(0), F(r.choice([-2, -1, 1, 2])), F(r.choice([-3, 3, 4]))]
        r.shuffle(ks)
        ids = [self.leaf("P", X.add(a, X.mul(k, d))) for k in ks]
        q = r.choice(AUX_Q)
        op = {"op": "QUERY", "qid": self.nid("q"), "q": q, "a": ids[0], "b": ids[1], "c": ids[2]}
        self.ops.append(op)
        self.queries.append(op["qid"])
        return op

    def round_builder(self):
        """Circle / Cylinder / Cone / Sphere from a shared centre Point (and axis
        Vector): irrational vertices, used for the bit-exact invariants only"""
        r = self.rng
        P = self.ids(lambda e: e["kind"] == "leaf" and e["t"] == "Point")
        if not P:
            return None
        c = r.choice(P)
        which = r.choice(["Circle", "Circle", "Cylinder", "Cone", "Sphere"])
        axis = self.leaf("V", r.choice(list(X.AXES) + [X.rnd_dir(r, 2)]))
        kw = {"radius": str(F(r.choice([1, 2, 3]), 2)), "n": r.choice([3, 4, 5, 6])}
        if which == "Sphere":
            return self.build("Sphere", [c], "ConvexPolyhedron", **kw)
        return self.build(which, [c, axis], "ConvexPolygon" if which == "Circle" else "ConvexPolyhedron", **kw)

    def ensure(self, t):
        """id of some object of type t, building one (from shared leaves) if needed"""
        r = self.rng
        have = self.ids(lambda e: e["t"] == t and e["kind"] in ("leaf", "composite", "copy"))
        if have and r.random() < 0.7:
            return r.choice(have)
        P = self.ids(lambda e: e["kind"] == "leaf" and e["t"] == "Point")
        while len(P) < 2:
            P.append(self.leaf("P"))
        if t == "Point":
            return r.choice(P)
        if t == "Plane":
            return self.private("Plane")
        if t in ("Line", "Segment", "HalfLine"):
            a, b = r.sample(P, 2)
            if self.ent[a]["c"] == self.ent[b]["c"]:
                b = self.leaf("P", X.add(self.ent[a]["c"], X.rnd_dir(r, 1)))
            return self.build({"Line": "Line_PP", "Segment": "Segment_PP", "HalfLine": "HalfLine_PP"}[t], [a, b], t)
        if t == "ConvexPolygon":
            g = self.polygon_group()
            return self.build("Polygon", list(g["leaves"]), "ConvexPolygon", container="tuple", check_convex=r.random() < 0.3)
        if t == "ConvexPolyhedron":
            if have:
                return r.choice(have)
            return self.body_group()["body"]
        return None

    def polygon_group(self):
        r = self.rng
        u, w = X.rnd_frame2(r) if r.random() < 0.6 else r.sample(list(X.AXES), 2)
        pts = X.polygon_points(self.near(), u, w, r.choice([F(1, 2), F(1)]), X.POLY2D[r.randrange(6)])
        leaves = [self.leaf("P", p) for p in pts]
        g = {"leaves": leaves, "dirty": False, "kind": "polygon"}
        self.groups.append(g)
        return g

    def body_group(self):
        r = self.rng
        name = r.choice(["tetra", "cube", "triprism", "sqpyramid"])
        body = X.BODIES[name]
        u, v, w = X.rnd_frame3(r) if r.random() < 0.5 else X.AXES
        s = r.choice([F(1, 2), F(1)])
        o = self.near()
        pts = [X.add(o, X.mul(s, X.add(X.add(X.mul(p[0], u), X.mul(p[1], v)), X.mul(p[2], w)))) for p in body["pts"]]
        leaves = [self.leaf("P", p) for p in pts]
        faces = []
        for f in body["faces"]:
            ids = [leaves[i] for i in f]
            r.shuffle(ids) if False else None
            faces.append(self.build("Polygon", ids, "ConvexPolygon", container=r.choice(["tuple", "list"]), check_convex=r.random() < 0.2))
        ph = self.build("Polyhedron", faces, "ConvexPolyhedron")
        g = {"leaves": leaves, "dirty": False, "kind": "body", "faces": faces, "body": ph}
        self.groups.append(g)
        return g

    def some_build(self):
        r = self.rng
        P = self.ids(lambda e: e["kind"] == "leaf" and e["t"] == "Point")
        Vv = self.ids(lambda e: e["kind"] == "leaf" and e["t"] == "Vector")
        choice = r.random()
        if choice < 0.2 and len(P) >= 2:
            a, b = r.sample(P, 2)
            return self.build("Segment_PP", [a, b], "Segment")
        if choice < 0.3 and P and Vv:
            return self.build("Segment_PV", [r.choice(P), r.choice(Vv)], "Segment")
        if choice < 0.4 and len(P) >= 2:
            a, b = r.sample(P, 2)
            return self.build("HalfLine_PP", [a, b], "HalfLine")
        if choice < 0.5 and P and Vv:
            return self.build("HalfLine_PV", [r.choice(P), r.choice(Vv)], "HalfLine")
        if choice < 0.6 and len(P) >= 2:
            a, b = r.sample(P, 2)
            return self.build("Line_PP", [a, b], "Line")
        if choice < 0.7:
            clean = [g for g in self.groups if not g["dirty"] and g["kind"] == "polygon"]
            if clean:
                g = r.choice(clean)
                ids = list(g["leaves"])
                r.shuffle(ids)
                for _ in range(30):
                    c = [self.ent[i]["c"] for i in ids[:3]]
                    if not X.parallel(X.sub(c[1], c[0]), X.sub(c[2], c[0])):
                        break
                    r.shuffle(ids)
                return self.build("Polygon", ids, "ConvexPolygon", container=r.choice(["tuple", "list"]), check_convex=r.random() < 0.3)
        if choice < 0.78 and P and len(Vv) >= 2:
            a, b = r.sample(Vv, 2)
            if not X.parallel(self.ent[a]["c"], self.ent[b]["c"]):
                return self.build("Parallelogram", [r.choice(P), a, b], "ConvexPolygon")
        if choice < 0.84 and P and len(Vv) >= 3:
            a, b, c = r.sample(Vv, 3)
            if X.det3(self.ent[a]["c"], self.ent[b]["c"], self.ent[c]["c"]) != 0:
                return self.build("Parallelepiped", [r.choice(P), a, b, c], "ConvexPolyhedron")
        if choice < 0.86:
            polys = self.ids(lambda e: e["t"] == "ConvexPolygon" and e["kind"] == "composite")
            if polys:
                return self.build("Neg", [r.choice(polys)], "ConvexPolygon")
        if choice < 0.90:
            polys = self.ids(lambda e: e["t"] == "ConvexPolygon" and e["kind"] in ("composite", "copy"))
            if polys:  # a polygon built from the internal Points of another polygon
                return self.build("Polygon_of_points", [r.choice(polys)], "ConvexPolygon", reverse=r.random() < 0.3, check_convex=r.random() < 0.3)
        if choice < 0.915:
            phs = self.ids(lambda e: e["t"] == "ConvexPolyhedron" and e["kind"] in ("composite", "copy"))
            if phs:  # a polyhedron built from the internal faces of another polyhedron
                return self.build("Polyhedron_of_faces", [r.choice(phs)], "ConvexPolyhedron")
        if choice < 0.93 and len(P) >= 2:
            a, b = r.sample(P, 2)
            return self.build("Vector_PP", [a, b], "Vector")
        if choice < 0.94 and Vv:
            return self.build("Point_of_vector", [r.choice(Vv)], "Point")
        if choice < 0.97:
            return self.private("Plane")
        return self.private("Line")

    def query(self, a=None, b=None, q=None):
        r = self.rng
        objs = self.ids(lambda e: e["t"] != "Vector")
        if not objs:
            return None
        if q is None:
            x = r.random()
            if x < 0.35:
                q = "inter_f"
            elif x < 0.45:
                q = "inter_m"
            elif x < 0.62:
                q = "in"
            else:
                q = r.choice(PAIR_Q[3:] + SELF_Q)
        vecs = self.ids(lambda e: e["t"] == "Vector")
        if q in ("angle", "parallel", "orthogonal") and len(vecs) >= 1 and a is None and b is None and r.random() < 0.3:
            a, b = r.choice(vecs), r.choice(vecs)  # the Vector/Vector forms of these queries
        a = a or r.choice(objs)
        if q in PAIR_Q:
            b = b or r.choice(objs)
        else:
            b = None
        op = {"op": "QUERY", "qid": self.nid("q"), "q": q, "a": a, "b": b}
        if q in ("inter_f", "inter_m") and r.random() < 0.25 and len(self.ent) < 16:
            rid = self.nid("r")
            op["keep"] = rid
            self.ent[rid] = {"t": "?", "kind": "result", "mut": False}
        self.ops.append(op)
        self.queries.append(op["qid"])
        return op

    def mutate(self, target=None):
        r = self.rng
        cands = self.ids(lambda e: e["mut"])
        if not cands:
            return None
        comps = [c for c in cands if self.ent[c]["kind"] != "leaf"]
        i = target or (r.choice(comps) if comps and r.random() < 0.4 else r.choice(cands))
        e = self.ent[i]
        val = lambda: str(F(r.randint(-8, 8), 4))
        if e["t"] == "Point" and e["kind"] == "leaf":
            how = r.choice(["move", "move", "setitem", "setattr"])
        elif e["t"] == "Vector":
            how = "setitem"
        elif e["t"] in _INTERNAL and r.random() < 0.3:
            how = "internal"
        else:
            how = "move"
        op = {"op": "MUTATE", "i": i, "how": how}
        if how == "move" and e["t"] in OWNING and r.random() < 0.35 and len(self.ent) < 15:
            rid = self.nid("m")
            op["ret"] = rid
            self.ent[rid] = {"t": e["t"], "kind": "copy", "mut": True, "from": []}
        if how == "internal":
            # the caller edits, in place, a Point / Vector it reached through the
            # composite's public attributes (poly.points[i].x = ..., seg.start_point.move(v))
            op["path"] = [r.randrange(8) if x == "#" else x for x in r.choice(_INTERNAL[e["t"]])]
            if op["path"][-1] in ("sv", "dv", "vector", "n"):
                op["edit"], op["idx"], op["val"] = "setitem", r.randrange(3), val()
            elif r.random() < 0.5:
                op["edit"], op["v"] = "move", X.ser(tuple(F(r.randint(-4, 4), 4) for _ in range(3)))
            else:
                op["edit"], op["attr"], op["val"] = "setattr", r.choice("xyz"), val()
            self.ops.append(op)
            return op
        if how == "move":
            v = tuple(F(r.randint(-6, 6), 4) for _ in range(3))
            x = r.random()
            if x < 0.1:
                v = X.ZERO
            elif x < 0.4:  # axis-aligned moves
                v = X.mul(F(r.choice([-6, -4, -2, -1, 1, 2, 4, 6]), 4), r.choice(X.AXES))
            op["v"] = X.ser(v)
        elif how == "setitem":
            op["idx"], op["val"] = r.randrange(3), val()
        else:
            op["attr"], op["val"] = r.choice("xyz"), val()
        self.ops.append(op)
        if e["kind"] == "leaf":
            for g in self.groups:
                if i in g["leaves"]:
                    g["dirty"] = True
            if e["t"] == "Point":
                c = list(e["c"])
                if how == "move":
                    c = list(X.add(tuple(c), X.vec(op["v"])))
                elif how == "setitem":
                    c[op["idx"]] = F(op["val"])
                else:
                    c["xyz".index(op["attr"])] = F(op["val"])
                e["c"] = tuple(c)
            elif e["t"] == "Vector":
                c = list(e["c"])
                c[op["idx"]] = F(op["val"])
                e["c"] = tuple(c)
        return op

    def move_group(self, g):
        """move every leaf of a group by the same vector: the group stays clean"""
        r = self.rng
        v = tuple(F(r.randint(-4, 4), 2) for _ in range(3))
        for i in g["leaves"]:
            self.ops.append({"op": "MUTATE", "i": i, "how": "move", "v": X.ser(v)})
            self.ent[i]["c"] = X.add(self.ent[i]["c"], v)


CELLS = [(q, a, b) for q in PAIR_Q for a in GEO for b in GEO]
_INTERNAL = {
    "Segment": [["start_point"], ["end_point"]],
    "HalfLine": [["point"], ["vector"]],
    "Line": [["sv"], ["dv"]],
    "Plane": [["p"]],
    "ConvexPolygon": [["points", "#"], ["points", "#"], ["center_point"]],
    "ConvexPolyhedron": [["convex_polygons", "#", "points", "#"], ["center_point"]],
}


def generate(rng, k, tier="quick"):
    m = GenModel(rng)
    scen = k % 8
    heavy = scen in (2, 6)
    focus = CELLS[(k // 8) % len(CELLS)]  # every ordered pair x query gets its share of histories
    for _ in range(rng.randint(2, 4)):
        m.leaf("P")
    for _ in range(rng.randint(1, 3)):
        m.leaf("V")
    if scen in (1, 5, 7):
        g = m.polygon_group()
        m.some_build()
    if heavy:
        m.body_group()
    if scen in (3, 7):
        m.leaf("V")
        m.leaf("V")
    long = tier == "thorough" and rng.random() < 0.5
    target_len = len(m.ops) + rng.randint(10, 24 if heavy else 40) + (20 if long else 0)
    focus_at = len(m.ops) + rng.randint(2, 10)
    guard = 0
    while len(m.ops) < target_len and guard < 200:
        guard += 1
        if focus is not None and len(m.ops) >= focus_at:
            q, ta, tb = focus
            focus = None
            a, b = m.ensure(ta), m.ensure(tb)
            if a and b:
                m.query(a=a, b=b, q=q)
                tgt = rng.choice([a, b])
                src = [x for x in m.ent[tgt].get("from", []) if m.ent.get(x, {}).get("mut")]
                m.mutate(rng.choice(src) if src and rng.random() < 0.5 else tgt)
                m.ops.append({"op": "QUERY", "qid": m.nid("q"), "q": q, "a": a, "b": b})
                m.queries.append(m.ops[-1]["qid"])
            continue
        r = rng.random()
        if r < 0.03 and len(m.ent) < 12:
            m.aux_query()
        elif 0.05 <= r < 0.07:
            objs = m.ids(lambda e: e["t"] not in ("Vector",))
            if len(objs) >= 3:
                a, b, c = rng.sample(objs, 3)
                m.ops.append({"op": "QUERY", "qid": m.nid("q"), "q": "inter_nested", "a": a, "b": b, "c": c})
                m.queries.append(m.ops[-1]["qid"])
        elif r > 0.9 and rng.random() < 0.8:
            # ask - move an operand in place (axis-aligned) - ask again [- move back - ask again]
            movable = m.ids(lambda e: e["mut"] and e["kind"] in ("composite", "copy") and e["t"] not in ("Vector", "?"))
            others = m.ids(lambda e: e["t"] not in ("Vector",))
            if movable and others:
                a, b = rng.choice(movable), rng.choice(others)
                q = rng.choice(["inter_f", "inter_f", "in", "distance", "inter_m", "area", "volume", "length", "hash"])
                first, second = (a, b) if rng.random() < 0.5 else (b, a)
                if q in SELF_Q:
                    first, second = a, None
                op = m.query(a=first, b=second, q=q)
                v = X.mul(F(rng.choice([-4, -2, -1, 1, 2, 4]), 4), rng.choice(X.AXES))
                internal = rng.random() < 0.4
                if internal:
                    m.mutate(a)  # may edit an internal Point / Vector through a public attribute
                else:
                    m.ops.append({"op": "MUTATE", "i": a, "how": "move", "v": X.ser(v)})
                m.ops.append({"op": "QUERY", "qid": m.nid("q"), "q": q, "a": first, "b": second})
                m.queries.append(m.ops[-1]["qid"])
                if not internal and rng.random() < 0.4:
                    m.ops.append({"op": "MUTATE", "i": a, "how": "move", "v": X.ser(X.mul(F(-1), v))})
                    m.ops.append({"op": "QUERY", "qid": m.nid("q"), "q": q, "a": first, "b": second})
                    m.queries.append(m.ops[-1]["qid"])
                if rng.random() < 0.5:
                    m.ops.append({"op": "COLD_REPLAY"})
        elif r < 0.05 and len(m.ent) < 12 and not heavy:
            bid = m.round_builder()
            if bid and rng.random() < 0.7:
                src = [a for a in m.ent[bid].get("from", []) if m.ent.get(a, {}).get("mut")]
                m.mutate(rng.choice(src))
                m.query(a=bid)
        elif r < 0.14 and len(m.ent) < 14:
            bid = m.some_build()
            if bid and rng.random() < 0.5:
                # interference right after the construction that used the leaf
                src = [a for a in m.ent[bid].get("from", []) if m.ent.get(a, {}).get("mut")]
                if src:
                    m.mutate(rng.choice(src))
                    m.query(a=bid)
        elif r < 0.55:
            op = m.query()
            if op and rng.random() < 0.4:
                # a mutation between two identical queries
                tgt = rng.choice([x for x in (op["a"], op["b"]) if x])
                e = m.ent[tgt]
                src = [a for a in e.get("from", []) if m.ent.get(a, {}).get("mut")]
                if src and rng.random() < 0.5:
                    m.mutate(rng.choice(src))
                elif e["mut"]:
                    m.mutate(tgt)
                m.ops.append({"op": "QUERY", "qid": m.nid("q"), "q": op["q"], "a": op["a"], "b": op["b"]})
                m.queries.append(m.ops[-1]["qid"])
        elif r < 0.72:
            m.mutate()
        elif r < 0.77 and m.groups:
            m.move_group(rng.choice(m.groups))
        elif r < 0.84 and len(m.ent) < 14:
            src = rng.choice(m.ids(lambda e: e["kind"] != "result"))
            cid = m.nid("c")
            m.ops.append({"op": "DEEPCOPY", "id": cid, "i": src})
            m.ent[cid] = {"t": m.ent[src]["t"], "kind": "copy", "mut": True, "from": []}
        elif r < 0.93 and m.queries:
            m.ops.append({"op": "REASK", "ref": rng.choice(m.queries)})
        elif r < 0.96 and len(m.ent) < 14:
            m.leaf(rng.choice("PV"))
        else:
            m.ops.append({"op": "COLD_REPLAY"})
    m.ops.append({"op": "COLD_REPLAY"})
    return {"property": NAME, "ops": m.ops, "scenario": scen}


# ------------------------------------------------------------------ world


class World(object):
    def __init__(self, cold=False):
        self.e = {}  # id -> {"obj", "ver", "kind"}
        self.cold = cold
        self.last_return = None

    def get(self, i):
        e = self.e.get(i)
        return None if e is None else e["obj"]

    def put(self, i, obj, kind, src=()):
        self.e[i] = {"obj": obj, "ver": 0, "kind": kind, "from": list(src)}

    def apply_structural(self, op):
        """NEW_LEAF / BUILD / MUTATE / DEEPCOPY / kept QUERY; returns a discrete outcome"""
        G = lib()
        kind = op["op"]
        if kind == "NEW_LEAF":
            c = [num(x, op.get("ints", False)) for x in op["c"]]
            obj = G.Point(*c) if op["kind"] == "P" else G.Vector(*c)
            self.put(op["id"], obj, "leaf")
            return tname(obj)
        if kind == "BUILD":
            if op["ctor"] == "private":
                obj = call(build, op["spec"])
            else:
                args = [self.get(a) for a in op["args"]]
                if any(a is None or isinstance(a, Raised) for a in args):
                    return "noop"
                obj = call(_ctor(op), *args)
            if isinstance(obj, Raised):
                return "!" + obj.cls
            self.put(op["id"], obj, "composite", op["args"])
            return tname(obj)
        if kind == "MUTATE":
            e = self.e.get(op["i"])
            if e is None:
                return "noop"
            o = e["obj"]
            how = op["how"]
            if how == "move":
                r = call(lambda: o.move(G.Vector(*[float(F(x)) for x in op["v"]])))
                # the object move hands out: for the owning types (and Point) it is built
                # from the receiver's data and must own its own copy (K6); it stays in the
                # heap under the name the op gives it, so later mutations of the receiver
                # must leave it alone (K2) and vice versa. Line.move / Plane.move share
                # state with the receiver by design (exempt).
                self.last_return = None
                if op.get("ret") and not isinstance(r, Raised) and tname(r) in OWNING and r is not o:
                    self.last_return = (op["ret"], r)
                    self.put(op["ret"], r, "moved", [op["i"]])
            elif how == "internal":
                def edit():
                    t = o
                    for step in op["path"]:
                        if isinstance(step, int):
                            t = t[step % len(t)]
                        else:
                            t = getattr(t, step)
                    if op["edit"] == "move":
                        return t.move(G.Vector(*[float(F(x)) for x in op["v"]]))
                    if op["edit"] == "setitem":
                        return t.__setitem__(op["idx"], float(F(op["val"])))
                    return setattr(t, op["attr"], float(F(op["val"])))

                r = call(edit)
            elif how == "setitem":
                r = call(lambda: o.__setitem__(op["idx"], float(F(op["val"]))))
            else:
                r = call(lambda: setattr(o, op["attr"], float(F(op["val"]))))
            e["ver"] += 1
            return "!" + r.cls if isinstance(r, Raised) else "ok"
        if kind == "DEEPCOPY":
            o = self.get(op["i"])
            if o is None:
                return "noop"
            d = call(copy.deepcopy, o)
            if isinstance(d, Raised):
                return "!" + d.cls
            self.put(op["id"], d, "copy")
            return tname(d)
        raise ValueError(kind)

    def ask(self, q, a, b, c=None):
        oa = self.get(a)
        ob = self.get(b) if b is not None else None
        if oa is None or (b is not None and ob is None):
            return None, False
        fn = _q(q)
        if q in METHOD_FORM_Q and b is not None and c is None and _method_form(a, b) and any(k.__name__ == "GeoBody" for k in type(oa).__mro__):
            # the same public query through its method form (GeoBody.distance / angle /
            # parallel / orthogonal): chosen by a fixed function of the operand names,
            # so hot world, re-asks and cold replays of one query use one form, and
            # roughly half of all such queries go each way (seeded defect S80)
            fn = lambda x, y, _q=q: getattr(x, _q)(y)
            METHOD_FORM_COUNT[q] = METHOD_FORM_COUNT.get(q, 0) + 1
        if c is not None:
            oc = self.get(c)
            if oc is None:
                return None, False
            return call(fn, oa, ob, oc), True
        r = call(fn, oa, ob) if b is not None else call(fn, oa)
        return r, True

    def versions(self, a, b, c=None):
        return (self.e[a]["ver"], self.e[b]["ver"] if b is not None else None, self.e[c]["ver"] if c is not None else None)


def _ctor(op):
    G = lib()
    c = op["ctor"]
    if c in ("Segment_PP", "Segment_PV"):
        return G.Segment
    if c in ("HalfLine_PP", "HalfLine_PV"):
        return G.HalfLine
    if c == "Line_PP":
        return G.Line
    if c == "Polygon":
        kw = {"check_convex": True} if op.get("check_convex") else {}
        return (lambda *pts: G.ConvexPolygon(list(pts), **kw)) if op.get("container") == "list" else (lambda *pts: G.ConvexPolygon(tuple(pts), **kw))
    if c == "Polyhedron":
        return lambda *faces: G.ConvexPolyhedron(tuple(faces))
    if c == "Parallelogram":
        return G.Parallelogram
    if c == "Parallelepiped":
        return G.Parallelepiped
    if c == "Neg":
        return lambda p: -p
    if c == "Polygon_of_points":
        return lambda p: G.ConvexPolygon(p.points, reverse=bool(op.get("reverse")), check_convex=bool(op.get("check_convex")))
    if c == "Polyhedron_of_faces":
        return lambda ph: G.ConvexPolyhedron(ph.convex_polygons)
    if c == "Vector_PP":
        return lambda a, b: G.Vector(a, b)
    if c == "Point_of_vector":
        return lambda v: G.Point(v)
    rad, n = float(F(op.get("radius", "1"))), op.get("n", 4)
    if c == "Circle":
        return lambda ctr, nv: G.Circle(ctr, nv, rad, n)
    if c == "Cylinder":
        return lambda ctr, hv: G.Cylinder(ctr, rad, hv, n)
    if c == "Cone":
        return lambda ctr, hv: G.Cone(ctr, rad, hv, n)
    if c == "Sphere":
        return lambda ctr: G.Sphere(ctr, rad, n1=max(n, 4), n2=2)
    raise ValueError(c)


# ------------------------------------------------------------------ execution


class Ctx(object):
    def __init__(self):
        self.chain, self.violations, self.stats, self.detail = [], [], {}, []

    def count(self, key, n=1):
        self.stats[key] = self.stats.get(key, 0) + n

    def event(self, step, what, outcome):
        self.chain.append("%d|%s|%s" % (step, what, outcome))

    def vio(self, step, inv, sig_tail, query, shape, info):
        sig = "C20/%s/%s" % (inv, sig_tail)
        self.count("alarms")
        if len(self.violations) < 40:
            self.violations.append({"step": step, "inv": inv, "sig": sig, "query": query, "shape": shape, "info": info, "side": "world", "probe_type": None})


def _snaps(world):
    return {i: snap_key(e["obj"]) for i, e in world.e.items()}


def _relation(world, victim, actor):
    ev, ea = world.e.get(victim, {}), world.e.get(actor, {})
    if actor in ev.get("from", []):
        return "built_from_target"
    if victim in ea.get("from", []):
        return "source_of_target"
    if set(ev.get("from", [])) & set(ea.get("from", [])):
        return "sibling"
    return "bystander"


def _cold_world(ops, upto):
    w = World(cold=True)
    for op in ops[:upto]:
        k = op["op"]
        if k in ("NEW_LEAF", "BUILD", "MUTATE", "DEEPCOPY"):
            w.apply_structural(op)
        elif k == "QUERY" and op.get("keep"):
            r, ok = w.ask(op["q"], op["a"], op["b"])
            if ok and not isinstance(r, Raised) and r is not None and not isinstance(r, (bool, int, float)):
                w.put(op["keep"], copy.deepcopy(r), "result")
    return w


def _resolve(op, qops):
    """(q, a, b, c, keep) of a QUERY / REASK op, or None"""
    if op["op"] == "REASK":
        src = qops.get(op.get("ref"))
        if src is None:
            return None
        return src["q"], src["a"], src["b"], src.get("c"), None
    qops[op.get("qid")] = op
    return op["q"], op["a"], op["b"], op.get("c"), op.get("keep")


def cold_answers(ops, upto):
    """history-free answers for checkpoint `upto` (1-based step of a COLD_REPLAY
    op): replay only the structural ops (and kept queries, which are
    constructions) into a world that never sees another query, then ask the
    queries that are still current. Run in a forked child taken *before* the hot
    execution starts, so that not even process-global state (module-level
    caches, class attributes) has seen the history's queries."""
    W = World(cold=True)
    asked, qops = [], {}
    for step, op in enumerate(ops[: upto - 1], 1):
        k = op["op"]
        if k in ("NEW_LEAF", "BUILD", "MUTATE", "DEEPCOPY"):
            W.apply_structural(op)
        elif k in ("QUERY", "REASK"):
            res = _resolve(op, qops)
            if res is None:
                continue
            q, a, b, c3, keep = res
            if a not in W.e or (b is not None and b not in W.e) or (c3 is not None and c3 not in W.e):
                continue
            asked.append((step, q, a, b, W.versions(a, b, c3), c3))
            if keep:
                r, ok = W.ask(q, a, b, c3)
                if ok and not isinstance(r, Raised) and r is not None and not isinstance(r, (bool, int, float)):
                    W.put(keep, copy.deepcopy(r), "result")
    cur = [x for x in asked if x[2] in W.e and (x[3] is None or x[3] in W.e) and (x[5] is None or x[5] in W.e) and W.versions(x[2], x[3], x[5]) == x[4]]
    out = {}
    for (st, q, a, b, vers, c3) in cur[-16:]:
        r, ok = W.ask(q, a, b, c3)
        if ok:
            out[st] = to_data(r)
    return out


def forked_cold(ops):
    """{checkpoint step: {asked step: data}} computed in forked children, one per
    checkpoint, all taken before the hot execution begins; None if fork is
    unavailable"""
    if not hasattr(os, "fork"):
        return None
    res = {}
    for step, op in enumerate(ops, 1):
        if op["op"] != "COLD_REPLAY":
            continue
        rfd, wfd = os.pipe()
        pid = os.fork()
        if pid == 0:  # child
            code = 0
            try:
                os.close(rfd)
                data = pickle.dumps(cold_answers(ops, step))
                with os.fdopen(wfd, "wb") as w:
                    w.write(data)
            except BaseException:
                code = 1
            finally:
                os._exit(code)
        os.close(wfd)
        with os.fdopen(rfd, "rb") as r:
            buf = r.read()
        _, status = os.waitpid(pid, 0)
        if status != 0 or not buf:
            res[step] = None
        else:
            res[step] = pickle.loads(buf)
    return res


def execute(history, opts=None):
    G = lib()
    ctx = Ctx()
    fd = None
    if opts and opts.get("float_digest"):
        import hashlib

        fd = hashlib.sha256()
    ctx.fd = fd
    ops = history["ops"]
    G.set_eps()  # every history starts from the default configuration, whatever an earlier one left behind
    cold = forked_cold(ops) if not (opts and opts.get("no_fork")) else None
    W = World()
    cfg = (G.get_eps(), G.get_sig_figures())
    snaps = {}
    answers = {}  # op index -> (q, a, b, versions, stored answer)
    asked = []
    qops = {}
    prev = None
    for step, op in enumerate(list(ops) + [{"op": "END"}], 1):
        # the process-global tolerance is observable state too: no query, construction,
        # copy or in-place mutation may leave it changed (checked after every step)
        now = (G.get_eps(), G.get_sig_figures())
        if now != cfg and prev is not None:
            what = prev.get("q") or prev.get("ctor") or prev.get("how") or prev["op"]
            ctx.vio(step - 1, "K1", "%s/global_config" % what, str(what), "tolerance %r -> %r" % (cfg, now), {"op": {k: v for k, v in prev.items() if k in ("op", "q", "a", "b", "ctor", "how", "i")}})
            G.set_eps()
        prev = op
        kind = op["op"]
        if kind == "END":
            break
        ctx.count("op:" + kind)
        if kind in ("NEW_LEAF", "BUILD", "DEEPCOPY"):
            out = W.apply_structural(op)
            after = _snaps(W)
            changed = [i for i in snaps if snaps[i] != after[i]]
            for v in changed:
                # K5: constructing / copying must leave every existing object alone. The
                # property's anchors name this mechanism for C20 explicitly ("helpers that
                # translate points copy first", "circle point generation copies the centre
                # before moving it"): a builder that moves the caller's Point breaks
                # "composite objects own their data".
                what = op.get("ctor", kind)
                role = "argument" if v in op.get("args", []) or v == op.get("i") else "bystander"
                ctx.vio(step, "K5", "%s/%s/%s" % (what, tname(W.get(v)), role), "build", "%s changed %s (%s)" % (what, v, tname(W.get(v))), {"victim": v, "args": op.get("args")})
            if kind == "BUILD" and not out.startswith("!") and out != "noop":
                ctx.count("build:" + op["ctor"])
                if any(W.e.get(a, {}).get("kind") == "leaf" for a in op["args"]):
                    ctx.count("builds_from_shared_leaves")
            if kind == "DEEPCOPY" and out != "noop" and not out.startswith("!"):
                # K4: equal, structurally identical, nothing mutable shared
                o, d = W.get(op["i"]), W.get(op["id"])
                ctx.count("K4_checks")
                if snapshot(o) != snapshot(d):
                    ctx.vio(step, "K4", "snapshot/%s" % tname(o), "deepcopy", "copy differs structurally", {"of": op["i"]})
                eq = call(lambda a, b: a == b, d, o)
                # an object an internal edit has made degenerate may not even equal itself
                # (HalfLine.__eq__ normalises a zero vector): only objects that do are asserted
                self_eq = call(lambda a: a == a, o)
                if hasattr(type(o), "__eq__") and type(o).__eq__ is not object.__eq__ and self_eq is True and eq is not True:
                    ctx.vio(step, "K4", "eq/%s" % tname(o), "deepcopy", "copy == original is %s" % disc(eq), {"of": op["i"]})
                shared = set(mutable_ids(o)) & set(mutable_ids(d))
                if shared:
                    ctx.vio(step, "K4", "shared/%s" % tname(o), "deepcopy", "copy shares %d mutable sub-objects" % len(shared), {"of": op["i"]})
                # the == asked by K4 is itself a query: bracket it (K1)
                after2 = _snaps(W)
                for v in [i for i in after if after[i] != after2[i]]:
                    role = "operand_a" if v == op["id"] else ("operand_b" if v == op["i"] else "bystander")
                    ctx.vio(step, "K1", "eq/%sx%s/%s" % (tname(d), tname(o), role), "eq", "query changed %s (%s)" % (v, tname(W.get(v))), {"a": op["id"], "b": op["i"], "victim": v})
                after = after2
            snaps = after
            ctx.event(step, kind, out)
        elif kind == "MUTATE":
            tgt = op["i"]
            before_t = W.e.get(tgt, {}).get("obj")
            out = W.apply_structural(op)
            after = _snaps(W)
            if out != "noop" and W.last_return is not None and op.get("ret") == W.last_return[0]:
                rid, robj = W.last_return
                W.last_return = None
                ctx.count("K6_checks")
                shared = set(mutable_ids(robj)) & set(mutable_ids(before_t))
                if shared:
                    ctx.vio(step, "K6", "move_return_shares/%s" % tname(before_t), "move", "the object returned by move shares %d mutable sub-objects with the receiver" % len(shared), {"target": tgt, "returned": rid})
            if out != "noop":
                ctx.count("mutate:%s:%s" % (tname(before_t), op["how"]))
                ctx.count("K2_checks")
                changed = [i for i in snaps if snaps[i] != after[i] and i != tgt]
                for v in changed:
                    rel = _relation(W, v, tgt)
                    ctx.vio(
                        step, "K2", "%s/%s->%s/%s" % (op["how"], tname(before_t), tname(W.get(v)), rel), "mutate",
                        "mutation of %s changed %s" % (tgt, v), {"target": tgt, "victim": v, "relation": rel, "victim_kind": W.e[v]["kind"]},
                    )
                dependents = [i for i, e in W.e.items() if tgt in e.get("from", [])]
                if dependents:
                    ctx.count("mutations_of_leaf_with_live_dependents")
            snaps = after
            ctx.event(step, kind, out)
        elif kind in ("QUERY", "REASK"):
            if kind == "REASK":
                src = qops.get(op.get("ref"))
                if src is None:
                    ctx.event(step, kind, "noop")
                    continue
                q, a, b, keep, c3 = src["q"], src["a"], src["b"], None, src.get("c")
            else:
                qops[op.get("qid")] = op
                q, a, b, keep, c3 = op["q"], op["a"], op["b"], op.get("keep"), op.get("c")
            r, ok = W.ask(q, a, b, c3)
            if not ok:
                ctx.event(step, kind, "noop")
                continue
            ta, tb = tname(W.get(a)), (tname(W.get(b)) if b is not None else "-")
            if fd is not None:
                fd.update(detail(r).encode())
            ctx.count("cell:%s:%s:%s" % (q, ta, tb))
            ctx.count("queries")
            if isinstance(r, Raised):
                ctx.count("raising_queries")
            after = _snaps(W)
            ctx.count("K1_checks")
            changed = [i for i in snaps if snaps[i] != after[i]]
            for v in changed:
                role = "operand_a" if v == a else ("operand_b" if v == b else ("operand_c" if v == c3 else "bystander"))
                ctx.vio(step, "K1", "%s/%sx%s/%s" % (q, ta, tb, role), q, "query changed %s (%s)" % (v, tname(W.get(v))), {"a": a, "b": b, "c": c3, "victim": v, "result": detail(r)})
            snaps = after
            # K3: same question, same operand versions -> same answer
            vers = W.versions(a, b, c3)
            key = (q, a, b, c3, vers)
            stored = copy.deepcopy(r) if not isinstance(r, Raised) else r
            if key in answers:
                ctx.count("K3_reasks")
                if not same(answers[key], r, angle=(q == "angle")):
                    ctx.vio(step, "K3", "reask/%s/%sx%s" % (q, ta, tb), q, "%s->%s" % (disc(answers[key]), disc(r)), {"first": detail(answers[key]), "now": detail(r), "a": a, "b": b})
            else:
                answers[key] = stored
            asked.append((step, q, a, b, vers, stored, c3))
            if keep and not isinstance(r, Raised) and r is not None and not isinstance(r, (bool, int, float)):
                W.put(keep, copy.deepcopy(r), "result")
                snaps = _snaps(W)
                ctx.count("results_kept")
            ctx.event(step, kind, "%s(%s,%s)=%s%s" % (q, ta, tb, disc(r), "" if not changed else "#changed"))
            va = W.e[a]["ver"]
            vb = W.e[b]["ver"] if b is not None else 0
            ctx.count("state:%s/%s(%s)x%s(%s)/mut=%s%s/%s" % (q, ta, W.e[a]["kind"], tb, W.e[b]["kind"] if b is not None else "-", min(va, 2), min(vb, 2), "raise" if isinstance(r, Raised) else ("none" if r is None else "val")))
        elif kind == "COLD_REPLAY":
            # K3: a world that has never seen a query gives the same answers
            cur = [x for x in asked if x[2] in W.e and (x[3] is None or x[3] in W.e) and (x[6] is None or x[6] in W.e) and W.versions(x[2], x[3], x[6]) == x[4]]
            cur = cur[-16:]
            if not cur:
                ctx.event(step, kind, "nothing-current")
                continue
            ctx.count("cold_replays")
            outs = []
            if cold is not None:
                answers_c = cold.get(step)
                if answers_c is None:
                    ctx.count("cold_child_failed")
                    ctx.event(step, kind, "child-failed")
                    continue
                ctx.count("cold_replays_forked")
                for (st, q, a, b, vers, hot, c3) in cur:
                    if st not in answers_c:
                        outs.append("noop")
                        continue
                    ctx.count("K3_cold_checks")
                    hd, cd = to_data(hot), answers_c[st]
                    agree = same_data(hd, cd, angle=(q == "angle"))
                    outs.append(disc_data(cd) + ("" if agree else "#"))
                    if not agree:
                        ta, tb = tname(W.get(a)), (tname(W.get(b)) if b is not None else "-")
                        ctx.vio(step, "K3", "cold/%s/%sx%s" % (q, ta, tb), q, "%s->%s" % (disc_data(cd), disc_data(hd)), {"hot": detail(hot), "cold": repr(cd)[:400], "asked_at_step": st, "a": a, "b": b})
            else:
                C1 = _cold_world(ops, step - 1)
                for (st, q, a, b, vers, hot, c3) in cur:
                    r1, ok = C1.ask(q, a, b, c3)
                    if not ok:
                        outs.append("noop")
                        continue
                    ctx.count("K3_cold_checks")
                    agree = same(hot, r1, angle=(q == "angle"))
                    outs.append(disc(r1) + ("" if agree else "#"))
                    if not agree:
                        ta, tb = tname(W.get(a)), (tname(W.get(b)) if b is not None else "-")
                        ctx.vio(step, "K3", "cold/%s/%sx%s" % (q, ta, tb), q, "%s->%s" % (disc(r1), disc(hot)), {"hot": detail(hot), "cold": detail(r1), "asked_at_step": st, "a": a, "b": b})
            ctx.event(step, kind, ",".join(outs))
        else:
            ctx.event(step, kind, "unknown-op")
    for k in sorted(METHOD_FORM_COUNT):
        ctx.count("method_form:" + k, METHOD_FORM_COUNT[k])
    METHOD_FORM_COUNT.clear()
    return _result(ctx, history)


def _result(ctx, history):
    import hashlib

    h = hashlib.sha256()
    for line in ctx.chain:
        h.update(line.encode())
        h.update(b"\n")
    ops = history["ops"]
    # non-trivial: a BUILD from a shared leaf, later a mutation of that leaf or a QUERY
    built_from = set()
    nontrivial = False
    for op in ops:
        if op["op"] == "BUILD" and op.get("args"):
            built_from.update(op["args"])
        elif built_from and (op["op"] == "QUERY" or (op["op"] == "MUTATE" and op["i"] in built_from)):
            nontrivial = True
    kinds = [o["op"] for o in ops]
    return {
        "chain": h.hexdigest(),
        "events": ctx.chain,
        "violations": ctx.violations,
        "stats": ctx.stats,
        "detail": ctx.detail,
        "float_digest": ctx.fd.hexdigest() if getattr(ctx, "fd", None) is not None else None,
        "nontrivial": nontrivial,
        "steps": len(ops),
        "shape": ">".join(k[0] + k[-1] for k in kinds),
    }


def simplify_candidates(history):
    ops = history["ops"]
    for i, op in enumerate(ops):
        if op["op"] == "MUTATE" and op["how"] == "move" and op["v"] != ["1", "0", "0"]:
            new = copy.deepcopy(history)
            new["ops"][i]["v"] = ["1", "0", "0"]
            yield new
        if op["op"] == "QUERY" and op.get("keep"):
            new = copy.deepcopy(history)
            del new["ops"][i]["keep"]
            yield new
