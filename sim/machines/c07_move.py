"""C07 - move translates in place and the object stays self-consistent.

Move-history simulation against a rebuild-from-scratch model (DESIGN 4.1).
The model is (spec, t): the exact spec of the subject and the exact sum of the
moves applied so far; fresh(spec, t) builds a new object through the public
constructor at the translated position. The receiver X, the last return value
R and remembered deep copies are compared with that twin after every step.
"""
import copy
from fractions import Fraction as F

from .. import exactspec as X
from ..build import V, build
from ..compare import Raised, call, detail, disc, same, tname
from ..exact import admissible_hash
from ..libenv import lib

NAME = "C07"

ROT = (
    "Point", "Line", "Plane", "Segment", "HalfLine", "ConvexPolygon", "Segment", "ConvexPolyhedron",
    "HalfLine", "Line", "Plane", "Segment", "HalfLine", "ConvexPolygon", "ConvexPolygon", "ConvexPolyhedron",
)
PROBE_W_FLAT = (("Point", 6), ("Line", 4), ("Plane", 4), ("Segment", 4), ("HalfLine", 4), ("ConvexPolygon", 4), ("ConvexPolyhedron", 1))
PROBE_W_HEAVY = (("Point", 6), ("Line", 4), ("Plane", 4), ("Segment", 6), ("HalfLine", 4), ("ConvexPolygon", 2), ("ConvexPolyhedron", 1))


def _wchoice(rng, table):
    tot = sum(w for _, w in table)
    r = rng.random() * tot
    for name, w in table:
        r -= w
        if r < 0:
            return name
    return table[-1][0]


# ------------------------------------------------------------------ generation


def gen_move(rng, t, last, spec=None):
    kind = _wchoice(rng, (("generic", 8), ("zero", 1), ("axis", 2), ("neg_last", 2), ("neg_total", 2), ("int", 2), ("self_overlap", 3)))
    fpts = X.features(spec)["pts"] if (spec is not None and kind == "self_overlap") else []
    if kind == "self_overlap" and len(fpts) < 2:
        kind = "generic"
    if any(abs(c) > 8 for c in t):
        kind = "neg_total"
    if kind == "neg_last" and last is None:
        kind = "generic"
    if kind == "neg_total" and X.is_zero(t):
        kind = "generic"
    ints = False
    if kind == "generic":
        v = tuple(F(rng.randint(-12, 12), 4) for _ in range(3))
    elif kind == "zero":
        v = X.ZERO
        ints = rng.random() < 0.5
    elif kind == "axis":
        v = X.mul(F(rng.choice([-8, -4, -2, -1, 1, 2, 4, 6]), 4), rng.choice(X.AXES))
    elif kind == "self_overlap":
        # the offset between two of the object's own feature points (edge vectors,
        # diagonals): the moved object lands on parts of its own previous position
        a, b = rng.sample(fpts, 2)
        v = X.sub(a, b)
    elif kind == "neg_last":
        v = X.mul(F(-1), last)
    elif kind == "neg_total":
        v = X.mul(F(-1), t)
    else:
        v = tuple(F(rng.randint(-3, 3)) for _ in range(3))
        ints = True
    return {"op": "MOVE", "v": X.ser(v), "ints": ints, "kind": kind}, v


def gen_observe(rng, spec, t, heavy, tier="quick"):
    n = rng.randint(2, 3) if heavy else rng.randint(4, 7)
    if tier == "thorough":
        n += 2 if heavy else 3
    probes = []
    for _ in range(n):
        ptype = _wchoice(rng, PROBE_W_HEAVY if heavy else PROBE_W_FLAT)
        frame = rng.choice(["body", "world"])
        base = spec if frame == "body" else X.translate(spec, t)
        probes.append({"frame": frame, "spec": X.gen_probe(rng, base, ptype)})
    return {"op": "OBSERVE", "probes": probes}


def gen_small_integer_spec(rng, typ):
    """subjects on the integers -2..1, axis-aligned, moved by +-1 along axes: CPython
    hashes -1 and -2 alike (hash(-1) == hash(-2) == -2, ints and floats), so a move
    between those two coordinates is the one lattice move that can leave a hash-based
    fingerprint of an object unchanged although every vertex moved (S31)"""
    ints = rng.random() < 0.5
    ax = rng.randrange(3)
    others = [a for a in range(3) if a != ax]
    c0 = F(rng.choice([-1, -2, -1, -2, 0, 1]))

    def pt(u, v):
        p = [F(0)] * 3
        p[ax] = c0
        p[others[0]], p[others[1]] = F(u), F(v)
        return tuple(p)

    if typ == "Point":
        return {"t": typ, "form": "xyz", "p": X.ser(pt(rng.choice([0, 1]), rng.choice([0, 1]))), "ints": ints}
    if typ in ("Segment", "HalfLine", "Line"):
        a, b = pt(0, 0), pt(rng.choice([0, 1]), 1)
        return {"t": typ, "form": "PP", "a": X.ser(a), "b": X.ser(b), "ints": ints}
    if typ == "Plane":
        n = [F(0)] * 3
        n[ax] = F(1)
        return {"t": typ, "form": "PV", "a": X.ser(pt(0, 0)), "n": X.ser(tuple(n)), "ints": ints}
    if typ == "ConvexPolygon":
        pts = [pt(0, 0), pt(1, 0), pt(1, 1), pt(0, 1)]
        if rng.random() < 0.4:
            pts = pts[:3]
        return {"t": typ, "form": "pts", "pts": [X.ser(p) for p in pts], "neg": rng.random() < 0.2, "container": "tuple", "ints": ints}
    o = [F(rng.choice([-2, -1]))] * 3
    return {"t": typ, "form": "ppiped", "o": X.ser(tuple(o)), "u": ["1", "0", "0"], "v": ["0", "1", "0"], "w": ["0", "0", "1"], "ints": ints}


def generate(rng, k, tier="quick"):
    typ = ROT[k % len(ROT)]
    small = (k // len(ROT)) % 12 == 5  # one history in twelve of every type
    spec = gen_small_integer_spec(rng, typ) if small else X.gen_spec(rng, typ)
    heavy = typ == "ConvexPolyhedron"
    ops = []
    t, last = X.ZERO, None
    copies = []  # model: t at the time of each DEEPCOPY
    have_ret = False
    if rng.random() < 0.5:
        ops.append(gen_observe(rng, spec, t, heavy, tier))
    for _ in range(rng.randint(1, 6)):
        if rng.random() < 0.3:
            ops.append({"op": "DEEPCOPY", "of": "returned" if (have_ret and rng.random() < 0.3) else "receiver"})
            copies.append(t)
        op, v = gen_move(rng, t, last, spec)
        if typ in ("Line", "Segment", "HalfLine") and rng.random() < 0.07 and not any(abs(c) > 6 for c in t):
            # the move vector IS one of the subject's own Vector objects, obtained through its
            # public accessors (line.parametric()): by value an ordinary lattice vector, by
            # identity aliased with state that move itself updates (S61)
            which = rng.choice(["sv", "dv"])
            a0, d0 = X.carrier(spec)
            v = X.add(a0, t) if which == "sv" else d0
            if typ == "HalfLine" and spec["form"] == "PP" and which == "dv":
                v = d0
            op = {"op": "MOVE", "alias": which, "v": X.ser(v), "ints": False, "kind": "alias"}
        if small and rng.random() < 0.7:
            v = X.mul(F(rng.choice([-1, 1, -1, 1, 2, -2])), rng.choice(X.AXES))
            op = {"op": "MOVE", "v": X.ser(v), "ints": rng.random() < 0.5, "kind": "unit_axis"}
        ops.append(op)
        t, last, have_ret = X.add(t, v), v, True
        if rng.random() < (0.6 if heavy else 0.8):
            ops.append(gen_observe(rng, spec, t, heavy, tier))
        r = rng.random()
        if r < 0.15 and have_ret:
            ops.append({"op": "CHAIN"})
            have_ret = False
        elif r < 0.25 and copies:
            i = rng.randrange(len(copies))
            ops.append({"op": "SWITCH_TO_COPY", "i": i})
            old = t
            t = copies[i]
            copies[i] = old
            last, have_ret = None, False
    if ops[-1]["op"] != "OBSERVE":
        ops.append(gen_observe(rng, spec, t, heavy, tier))
    return {"property": NAME, "subject": spec, "ops": ops}


# ------------------------------------------------------------------ battery


def _queries():
    G = lib()
    self_q = [
        ("measure:length", lambda S: S.length()),
        ("measure:area", lambda S: S.area()),
        ("measure:volume", lambda S: S.volume()),
        ("measure:volume_fn", lambda S: G.volume(S)),
        ("acc:general_form", lambda S: tuple(S.general_form())),
        ("acc:item0", lambda S: S[0] if type(S).__name__ == "Segment" else S.__getitem__("no")),
        ("acc:item1", lambda S: S[1] if type(S).__name__ == "Segment" else S.__getitem__("no")),
    ]
    pair_q = [
        ("in:P_in_S", lambda S, P: P in S),
        ("in:S_in_P", lambda S, P: S in P),
        ("inter:f(S,P)", lambda S, P: G.intersection(S, P)),
        ("inter:f(P,S)", lambda S, P: G.intersection(P, S)),
        ("inter:S.m(P)", lambda S, P: S.intersection(P)),
        ("distance:f(S,P)", lambda S, P: G.distance(S, P)),
        ("distance:f(P,S)", lambda S, P: G.distance(P, S)),
        ("angle:f(S,P)", lambda S, P: G.angle(S, P)),
        ("parallel:f(S,P)", lambda S, P: G.parallel(S, P)),
        ("orthogonal:f(S,P)", lambda S, P: G.orthogonal(S, P)),
        ("eq:S==P", lambda S, P: S == P),
        ("eq:P==S", lambda S, P: P == S),
    ]
    return self_q, pair_q


_Q = None


def queries():
    global _Q
    if _Q is None:
        _Q = _queries()
    return _Q


def run_battery(S, probe_specs):
    """all self queries, then all pair queries against freshly built probes"""
    self_q, pair_q = queries()
    out = []
    for name, fn in self_q:
        out.append((name, None, call(fn, S)))
    for i, ps in enumerate(probe_specs):
        Pb = call(build, ps)
        if isinstance(Pb, Raised):
            out.append(("probe_build", i, Pb))
            continue
        for name, fn in pair_q:
            out.append((name, i, call(fn, S, Pb)))
    return out


def run_one(S, qname, probe_spec):
    self_q, pair_q = queries()
    for name, fn in self_q:
        if name == qname:
            return call(fn, S)
    Pb = call(build, probe_spec)
    if isinstance(Pb, Raised):
        return Pb
    for name, fn in pair_q:
        if name == qname:
            return call(fn, S, Pb)
    raise KeyError(qname)


# ------------------------------------------------------------------ primary state


def _tup(p):
    return (p[0], p[1], p[2])


def primary(o):
    """point-like primary state through public accessors only, as exactly
    comparable data (dyadic lattice + lattice moves = exact float arithmetic).
    Direction-like state (Line, Plane, the direction of a HalfLine) is compared
    by denotation with same(): an implementation may legitimately keep another
    support point or a rescaled direction."""
    n = type(o).__name__
    if n == "Point":
        return ("Point", _tup(o))
    if n == "Segment":
        a, b = o.parametric()
        return ("Segment", frozenset([_tup(a), _tup(b)]))
    if n == "HalfLine":
        a, d = o.parametric()
        return ("HalfLine", _tup(a))
    if n == "ConvexPolygon":
        return ("ConvexPolygon", frozenset(_tup(p) for p in o.points))
    if n == "ConvexPolyhedron":
        return (
            "ConvexPolyhedron",
            frozenset(_tup(p) for p in o.point_set),
            frozenset(frozenset(_tup(p) for p in f.points) for f in o.convex_polygons),
        )
    return (n,)


def primary_equal(a, b, oa, ob):
    if isinstance(a, Raised) or isinstance(b, Raised):
        return False
    return a == b and same(oa, ob)


def observed_t(o, spec):
    """where a handle actually is, read through its public accessors, as an exact
    translation of the spec (None if that is not a lattice vector). Used for
    handles the history has superseded (an earlier return value, the receiver
    left behind by a.move(u).move(v)): Line.move and Plane.move return objects
    that share state with the receiver, so such a handle may legitimately have
    moved along - but wherever it is, it must be self-consistent."""
    t, form = spec["t"], spec.get("form")
    try:
        if t == "Point":
            got, want = _tup(o), X.vec(spec["p"])
        elif t in ("Line", "Segment", "HalfLine"):
            got, want = _tup(o.parametric()[0]), X.vec(spec["a"])
        elif t == "Plane":
            if form == "GF":
                return None
            got, want = _tup(o.point_normal()[0]), X.vec(spec["a"])
        elif t == "ConvexPolygon":
            got, want = min(_tup(p) for p in o.points), min(X.vertices(spec))
        elif t == "ConvexPolyhedron":
            got, want = min(_tup(p) for p in o.point_set), min(X.vertices(spec))
        else:
            return None
        tv = tuple(F(g) - w for g, w in zip(got, want))
    except Exception:
        return None
    if any(c.denominator > 4 or abs(c) > 64 for c in tv):
        return None
    return tv


# ------------------------------------------------------------------ execution


class Ctx(object):
    def __init__(self):
        self.chain = []
        self.violations = []
        self.stats = {}
        self.detail = []
        self.fd = None  # running digest of floating-point detail (determinism self-test only)

    def count(self, key, n=1):
        self.stats[key] = self.stats.get(key, 0) + n

    def event(self, step, what, outcome):
        self.chain.append("%d|%s|%s" % (step, what, outcome))


def _vio(ctx, step, inv, spec, side, q, ptype, shape, info):
    qkind = q.split(":")[0]
    sig = "C07/%s/%s/%s/%s" % (inv, spec["t"], qkind, side)
    ctx.count("disagreements_alarmed")
    if len(ctx.violations) < 40:
        ctx.violations.append(
            {"step": step, "inv": inv, "sig": sig, "side": side, "query": q, "probe_type": ptype, "shape": shape, "info": info}
        )


def _observe_side(ctx, step, side, obj, spec, t_obj, probes, base_measures):
    """I1 + I3 for one observed object against fresh(spec, t_obj)"""
    spec_t = X.translate(spec, t_obj)
    Fw = call(build, spec_t)
    if isinstance(Fw, Raised):
        ctx.count("twin_unbuildable")
        ctx.event(step, "obs:" + side, "twin!" + Fw.cls)
        return
    pspecs = [X.translate(p["spec"], t_obj) if p["frame"] == "body" else p["spec"] for p in probes]
    ptypes = [p["spec"]["t"] for p in probes]
    # I1 primary state
    px, pf = call(primary, obj), call(primary, Fw)
    ok1 = primary_equal(px, pf, obj, Fw)
    ctx.count("I1_checks")
    if not ok1:
        F2 = call(build, spec_t, 2)
        if isinstance(F2, Raised) or not primary_equal(call(primary, F2), pf, F2, Fw):
            ctx.count("ill_conditioned")
        else:
            _vio(ctx, step, "I1", spec, side, "primary:state", None, "differs", {"got": repr(px)[:600], "want": repr(pf)[:600]})
    # I3 queries
    rx = run_battery(obj, pspecs)
    rf = run_battery(Fw, pspecs)
    ctx.count("queries", len(rx))
    outs = []
    for (qn, pi, x), (_, _, f) in zip(rx, rf):
        if ctx.fd is not None:
            ctx.fd.update(detail(x).encode())
        ok = same(x, f, angle=qn.startswith("angle"))
        outs.append(disc(x) + ("" if ok else "#" + disc(f)))
        if pi is not None:
            ctx.count("cell:%s:%s:%s" % (spec["t"], qn.split(":")[0], ptypes[pi]))
        if isinstance(x, Raised):
            ctx.count("exception_path_queries")
        elif x is not None and x is not False and pi is not None:
            ctx.count("nontrivial_answers")
        if ok:
            continue
        ctx.count("disagreements_raw")
        # conditioning control: do freshly built equivalent twins agree with F?
        ps = pspecs[pi] if pi is not None else None
        cond = True
        for alt in (1, 2):
            Fa = call(build, spec_t, alt)
            if isinstance(Fa, Raised):
                cond = False
                break
            fa = run_one(Fa, qn, ps) if ps is not None else run_one(Fa, qn, None)
            if not same(fa, f, angle=qn.startswith("angle")):
                cond = False
                break
        if not cond:
            ctx.count("ill_conditioned")
            ctx.detail.append({"step": step, "ill_conditioned": qn, "side": side, "got": detail(x), "twin": detail(f)})
            continue
        _vio(
            ctx, step, "I3", spec, side, qn, ptypes[pi] if pi is not None else None, "%s->%s" % (disc(f), disc(x)),
            {"got": detail(x), "want": detail(f), "probe": ps, "t": X.ser(t_obj)},
        )
    # measures unchanged since step 0
    for (qn, pi, x) in rx[:7]:
        if qn.startswith("measure:") and qn in base_measures and not isinstance(x, Raised) and not isinstance(base_measures[qn], Raised):
            ctx.count("measure_checks")
            if not same(x, base_measures[qn]):
                _vio(ctx, step, "I3m", spec, side, qn, None, "measure changed", {"got": detail(x), "want": detail(base_measures[qn])})
    # ==, hash, set-merging against the twin (only where no hashed quantity is at a rounding boundary)
    if admissible_hash(spec_t):
        ctx.count("hash_eq_checks")
        checks = [
            ("eq:X==F", call(lambda a, b: a == b, obj, Fw)),
            ("eq:F==X", call(lambda a, b: a == b, Fw, obj)),
            ("hash:equal", call(lambda a, b: hash(a) == hash(b), obj, Fw)),
            ("hash:set_merges", call(lambda a, b: len({a, b}) == 1, obj, Fw)),
        ]
        if spec["t"] == "ConvexPolygon":
            checks.append(("eq:X.eq_with_normal(F)", call(lambda a, b: a.eq_with_normal(b), obj, Fw)))
        for qn, r in checks:
            outs.append(disc(r))
            if r is True:
                continue
            F2 = call(build, spec_t, 1)
            ctl = call(lambda a, b: (a == b) and hash(a) == hash(b), F2, Fw) if not isinstance(F2, Raised) else False
            if ctl is not True:
                ctx.count("ill_conditioned")
                continue
            _vio(ctx, step, "I3", spec, side, qn, None, "True->%s" % disc(r), {"got": detail(r), "t": X.ser(t_obj)})
    else:
        ctx.count("inadmissible_hash")
    ctx.event(step, "obs:" + side, ",".join(outs))


def execute(history, opts=None):
    """run one history; pure function of (history, library code, hash seed)"""
    G = lib()
    ctx = Ctx()
    if opts and opts.get("float_digest"):
        import hashlib

        ctx.fd = hashlib.sha256()
    spec = history["subject"]
    ops = history["ops"]
    G.set_eps()  # every history starts from the default configuration
    Xo = call(build, spec)
    if isinstance(Xo, Raised):
        ctx.count("subject_unbuildable")
        ctx.event(0, "build", "!" + Xo.cls)
        return _result(ctx, history)
    t = X.ZERO
    R = None
    copies = []  # [obj, t, label]
    stale = []  # [obj, label]: handles the history has superseded (self-consistency only)
    seen_t = {t: copy.deepcopy(Xo)}
    self_q, _ = queries()
    base = {name: call(fn, Xo) for name, fn in self_q}
    n_moves = 0
    for step, op in enumerate(ops, 1):
        kind = op["op"]
        ctx.count("op:" + kind)
        if kind == "MOVE":
            v = X.vec(op["v"])
            mv = V(v, op.get("ints", False))
            if op.get("alias"):
                # fetch the subject's own Vector object; its value at this instant is the move
                got = call(lambda o: (o if type(o).__name__ == "Line" else o.line).parametric()[0 if op["alias"] == "sv" else 1], Xo)
                if isinstance(got, Raised) or type(got).__name__ != "Vector":
                    ctx.event(step, "MOVE", "alias-unavailable")
                    continue
                vv = tuple(F(c) for c in got)
                if any(c.denominator > 4 or abs(c) > 32 for c in vv):
                    ctx.event(step, "MOVE", "alias-offlattice")
                    continue
                v, mv = vv, got
                ctx.count("alias_moves")
            if R is not None:
                stale.append([R, "superseded_return"])
                del stale[:-3]
            ret = call(lambda o, w: o.move(w), Xo, mv)
            t = X.add(t, v)
            n_moves += 1
            ctx.count("move_kind:" + op.get("kind", "?"))
            ctx.count("moves:%s" % spec["t"])
            if isinstance(ret, Raised):
                # does a fresh object at the new position even exist?
                Fw = call(build, X.translate(spec, t))
                if isinstance(Fw, Raised):
                    ctx.count("ill_conditioned")
                else:
                    _vio(ctx, step, "I2", spec, "receiver", "move:raised", None, "obj->%s" % disc(ret), {"got": detail(ret), "t": X.ser(t)})
                ctx.event(step, "MOVE", disc(ret))
                R = None
                continue
            R = ret
            # I2: the return value is an object of the same type, equal to the receiver
            ok_t = type(R) is type(Xo)
            eq1 = call(lambda a, b: a == b, R, Xo)
            eq2 = call(lambda a, b: a == b, Xo, R)
            sm = same(R, Xo)
            ctx.event(step, "MOVE", "%s,%s,%s,%s" % (tname(R), disc(eq1), disc(eq2), "T" if sm else "F"))
            ctx.count("I2_checks")
            adm = admissible_hash(X.translate(spec, t))
            if not ok_t:
                _vio(ctx, step, "I2", spec, "returned", "move:type", None, "%s->%s" % (tname(Xo), tname(R)), {})
            elif not sm:
                _vio(ctx, step, "I2", spec, "returned", "move:same", None, "returned differs from receiver", {"ret": detail(R), "recv": detail(Xo)})
            elif adm and (eq1 is not True or eq2 is not True):
                F1, F2 = call(build, X.translate(spec, t)), call(build, X.translate(spec, t), 2)
                ctl = call(lambda a, b: a == b, F1, F2)
                if ctl is True:
                    _vio(ctx, step, "I2", spec, "returned", "eq:R==X", None, "True->%s/%s" % (disc(eq1), disc(eq2)), {"ret": detail(R), "recv": detail(Xo)})
                else:
                    ctx.count("ill_conditioned")
            # I4: back at an earlier position -> equal to the copy taken then
            if t in seen_t:
                old = seen_t[t]
                ctx.count("I4_round_trips")
                sm4 = same(Xo, old)
                e4 = call(lambda a, b: a == b, Xo, old)
                ctx.event(step, "I4", "%s,%s" % ("T" if sm4 else "F", disc(e4)))
                if not sm4:
                    _vio(ctx, step, "I4", spec, "receiver", "roundtrip:same", None, "differs", {"now": detail(Xo), "then": detail(old)})
                elif adm and e4 is not True:
                    _vio(ctx, step, "I4", spec, "receiver", "eq:roundtrip", None, "True->%s" % disc(e4), {"now": detail(Xo), "then": detail(old)})
            else:
                seen_t[t] = copy.deepcopy(Xo)
        elif kind == "OBSERVE":
            probes = op["probes"]
            ctx.count("observations")
            if n_moves:
                ctx.count("observations_after_move")
            if n_moves >= 2:
                ctx.count("observations_after_2plus_moves")
            _observe_side(ctx, step, "receiver", Xo, spec, t, probes, base)
            if R is not None:
                ctx.count("observations_of_returned")
                _observe_side(ctx, step, "returned", R, spec, t, probes, base)
            heavy = spec["t"] == "ConvexPolyhedron"
            for so, label in stale[-(1 if heavy else 2):]:
                st = observed_t(so, spec)
                if st is None:
                    ctx.count("superseded_unlocatable")
                    continue
                ctx.count("observations_of_superseded_handles")
                if st != t:
                    ctx.count("superseded_handles_elsewhere")
                _observe_side(ctx, step, label, so, spec, st, probes, base)
            for ci, (co, ct, label) in enumerate(copies[: (1 if heavy else 3)]):
                ctx.count("observations_of_copies")
                if ct != t:
                    ctx.count("copies_diverged_observed")
                _observe_side(ctx, step, label, co, spec, ct, probes, base)
        elif kind == "DEEPCOPY":
            src = R if (op.get("of") == "returned" and R is not None) else Xo
            c = call(copy.deepcopy, src)
            if isinstance(c, Raised):
                _vio(ctx, step, "I5", spec, "copy", "deepcopy:raised", None, disc(c), {"got": detail(c)})
            else:
                copies.append([c, t, "copy"])
            ctx.event(step, "DEEPCOPY", tname(c))
        elif kind == "CHAIN":
            if R is not None:
                stale.append([Xo, "superseded_receiver"])
                del stale[:-3]
                Xo, R = R, None
                ctx.count("chained")
                ctx.event(step, "CHAIN", "ok")
            else:
                ctx.event(step, "CHAIN", "noop")
        elif kind == "SWITCH_TO_COPY":
            i = op.get("i", 0)
            if 0 <= i < len(copies):
                co, ct, _ = copies[i]
                copies[i] = [Xo, t, "abandoned"]
                Xo, t, R = co, ct, None
                ctx.count("switched")
                ctx.event(step, "SWITCH", "ok")
            else:
                ctx.event(step, "SWITCH", "noop")
        else:
            ctx.event(step, kind, "unknown-op")
        # abstract model state (coverage measure only)
        ctx.count("state:%s/%s/moves=%d/t0=%s/ret=%s/copies=%d/%s" % (spec["t"], spec.get("form"), min(n_moves, 6), "y" if X.is_zero(t) else "n", "y" if R is not None else "n", min(len(copies), 3), kind))
    return _result(ctx, history)


def _result(ctx, history):
    import hashlib

    h = hashlib.sha256()
    for line in ctx.chain:
        h.update(line.encode())
        h.update(b"\n")
    ops = history["ops"]
    kinds = [o["op"] for o in ops]
    nontrivial = False
    seen_move = False
    for kd in kinds:
        if kd == "MOVE":
            seen_move = True
        if kd == "OBSERVE" and seen_move:
            nontrivial = True
    return {
        "chain": h.hexdigest(),
        "events": ctx.chain,
        "violations": ctx.violations,
        "stats": ctx.stats,
        "detail": ctx.detail,
        "float_digest": ctx.fd.hexdigest() if ctx.fd is not None else None,
        "nontrivial": nontrivial,
        "steps": len(ops),
        "shape": ">".join(k[0] + k[-1] for k in kinds),
    }


# ------------------------------------------------------------------ shrinking support


def simplify_candidates(history):
    """argument-level simplifications tried after ddmin (A.8)"""
    ops = history["ops"]
    for i, op in enumerate(ops):
        if op["op"] == "MOVE":
            v = X.vec(op["v"])
            cands = []
            if not X.is_zero(v):
                for ax in range(3):
                    if v[ax] != 0:
                        cands.append(tuple(v[j] if j == ax else F(0) for j in range(3)))
                cands.append(tuple(F(1) if c > 0 else (F(-1) if c < 0 else F(0)) for c in v))
                cands.append((F(1), F(0), F(0)))
            for c in cands:
                if c != v:
                    new = copy.deepcopy(history)
                    new["ops"][i] = {"op": "MOVE", "v": X.ser(c), "ints": False, "kind": "shrunk"}
                    yield new
        elif op["op"] == "OBSERVE" and len(op["probes"]) > 1:
            for j in range(len(op["probes"])):
                new = copy.deepcopy(history)
                new["ops"][i]["probes"] = [op["probes"][j]]
                yield new
