"""Entry script of a worker process (kept separate from sim.worker so that the
module is never loaded twice under two names)."""
import os
import sys

sys.dont_write_bytecode = True
sys.path.insert(0, os.path.dirname(os.path.dirname(os.path.abspath(__file__))))

from sim import worker  # noqa: E402

if __name__ == "__main__":
    sys.exit(worker.main())
