"""Import the library under test from ${VERIF_REPO:-/repo} (the current working tree).

For a pure-Python repository "rebuild from the working tree" means: import the
sources from that tree, never a cached copy or bytecode. The worker asserts
that the package really came from there and records a digest of its sources.
"""
import hashlib
import logging
import os
import sys

_G = None


def repo_root():
    return os.path.realpath(os.environ.get("VERIF_REPO", "/repo"))


def source_digest(root=None):
    root = root or repo_root()
    h = hashlib.sha256()
    pkg = os.path.join(root, "Geometry3D")
    for dirpath, dirnames, filenames in sorted(os.walk(pkg)):
        dirnames.sort()
        if "__pycache__" in dirpath:
            continue
        for fn in sorted(filenames):
            if fn.endswith(".py"):
                p = os.path.join(dirpath, fn)
                h.update(os.path.relpath(p, root).encode())
                with open(p, "rb") as f:
                    h.update(f.read())
    return h.hexdigest()


def lib():
    """the Geometry3D package of the tree under test"""
    global _G
    if _G is None:
        root = repo_root()
        sys.dont_write_bytecode = True
        if root in sys.path:
            sys.path.remove(root)
        sys.path.insert(0, root)
        import Geometry3D as G

        got = os.path.realpath(os.path.dirname(G.__file__))
        want = os.path.join(root, "Geometry3D")
        if got != want:
            raise RuntimeError("HARNESS-ERROR Geometry3D imported from %s, expected %s" % (got, want))
        # the library configures the root logger at import and logs CRITICAL
        # lines from inside constructors; output only, switch it off entirely
        logging.disable(logging.CRITICAL)
        _G = G
    return _G
