"""Self-tests of the machinery itself: determinism (3.4) and sensitivity (3.7)."""
import glob
import json
import os
import shutil
import subprocess
import sys
import tempfile
import time

from . import seeds
from .launcher import NPROC, VERIF, HarnessError, _workdir, run_jobs

PY = sys.executable
SCRATCH_BASE = os.environ.get("VERIF_SCRATCH", "/var/tmp")


# ------------------------------------------------------------------ determinism


def determinism(argv):
    """N run seeds per property executed twice in two fresh interpreters under
    the same PYTHONHASHSEED (chains must be identical) and once under another
    hash seed (op lists identical; chain divergence is a diagnostic), at worker
    counts 1 and NPROC."""
    props = [a for a in argv if a.startswith("C")] or ["C07", "C19", "C20"]
    n = int(os.environ.get("VERIF_DET_RUNS", "96"))
    vseed = seeds.verif_seed()
    rc = 0
    report = {}
    for prop in props:
        workdir = _workdir(prop + "-det")
        try:
            for nworkers in (1, NPROC):
                chunks = [list(range(n))[i::nworkers] for i in range(nworkers)]
                jobs = []
                for tag, hs_key in (("A", "x"), ("B", "x"), ("C", "y")):
                    for w, idx in enumerate(chunks):
                        hs = seeds.hash_seed(vseed, prop, "%s-%d" % (hs_key, w))
                        jobs.append(("%s%d_%d" % (tag, nworkers, w), {"mode": "run", "property": prop, "verif_seed": vseed, "tier": "quick", "indices": idx, "worker": w, "emit_chain": True}, hs))
                res = run_jobs(workdir, jobs, 1800)

                def gather(tag):
                    out = {}
                    for name, r in res.items():
                        if name.startswith("%s%d_" % (tag, nworkers)):
                            for rec in r["records"]:
                                if rec["type"] == "run":
                                    out[rec["k"]] = rec
                    return out

                a, b, c = gather("A"), gather("B"), gather("C")
                mism = sorted(k for k in a if a[k]["chain"] != b[k]["chain"])
                opsm = sorted(k for k in a if a[k]["ops"] != b[k]["ops"] or a[k]["ops"] != c[k]["ops"])
                div = sorted(k for k in a if a[k]["chain"] != c[k]["chain"])
                sens = sum(1 for k in a if a[k].get("detail_digest") != c[k].get("detail_digest"))
                report["%s/workers=%d" % (prop, nworkers)] = {"runs": len(a), "same_seed_chain_mismatch": mism, "ops_mismatch": opsm, "hashseed_discrete_divergence": div, "hashseed_sensitive_runs": sens}
                print("%s workers=%d: %d runs twice + other hash seed: chain mismatches %d, op-list mismatches %d, hashseed_discrete_divergence %d, hashseed_sensitive_runs %d" % (prop, nworkers, len(a), len(mism), len(opsm), len(div), sens))
                if mism or opsm:
                    print("HARNESS-ERROR non-deterministic execution for %s: %s %s" % (prop, mism[:10], opsm[:10]))
                    rc = 2
            # the same op lists regardless of how runs are dealt to workers
        except HarnessError as e:
            print("HARNESS-ERROR %s" % e)
            rc = 2
        finally:
            shutil.rmtree(workdir, ignore_errors=True)
    os.makedirs(os.path.join(VERIF, "evidence"), exist_ok=True)
    with open(os.path.join(VERIF, "evidence", "selftest-determinism.json"), "w") as f:
        json.dump({"verif_seed": vseed, "report": report, "exit": rc}, f, indent=1, sort_keys=True)
    return rc


# ------------------------------------------------------------------ mutants


def _header(path):
    meta = {}
    with open(path) as f:
        for n, line in enumerate(f):
            if not line.startswith("#"):
                break
            if n < 2 and ":" in line:
                k, v = line[1:].split(":", 1)
                meta[k.strip()] = v.strip()
            else:
                meta.setdefault("desc", line[1:].strip())
    return meta


def make_scratch(patch=None):
    """scratch copy of the repository outside /repo and /verif"""
    d = tempfile.mkdtemp(prefix="verif-mut-", dir=SCRATCH_BASE)
    repo = os.environ.get("VERIF_REPO", "/repo")
    for sub in ("Geometry3D", "unit_tests", "g3d_tests"):
        if os.path.isdir(os.path.join(repo, sub)):
            shutil.copytree(os.path.join(repo, sub), os.path.join(d, sub), ignore=shutil.ignore_patterns("__pycache__", "*.pyc"))
    for fn in ("setup.py", "run_tests.py", "README.md"):
        if os.path.exists(os.path.join(repo, fn)):
            shutil.copy(os.path.join(repo, fn), d)
    if patch:
        r = subprocess.run(["patch", "-p1", "-s", "-i", patch], cwd=d, capture_output=True, text=True)
        if r.returncode != 0:
            shutil.rmtree(d, ignore_errors=True)
            raise HarnessError("patch %s does not apply: %s %s" % (patch, r.stdout, r.stderr))
    return d


def run_repo_tests(d):
    env = dict(os.environ)
    env["PYTHONDONTWRITEBYTECODE"] = "1"
    env.pop("PYTHONPATH", None)
    r = subprocess.run(
        ["timeout", "600", PY, "-m", "pytest", "-q", "-x", "-p", "no:cacheprovider", "unit_tests"],
        cwd=d, env=env, capture_output=True, text=True,
    )
    tail = (r.stdout or "").strip().splitlines()[-1:] or [""]
    return r.returncode == 0, tail[0]


def run_check_on(d, prop, runs):
    env = dict(os.environ)
    env["VERIF_REPO"] = d
    env["VERIF_RUNS"] = str(runs)
    env["VERIF_EVIDENCE_DIR"] = os.path.join(d, "_evidence")
    env["VERIF_REPLAY_DIR"] = os.path.join(d, "_replays")
    t0 = time.time()
    r = subprocess.run(["timeout", "1500", os.path.join(VERIF, "check"), prop, "quick"], env=env, capture_output=True, text=True, cwd=VERIF)
    return r.returncode, r.stdout, time.time() - t0


def mutants(argv):
    only = [a for a in argv if not a.startswith("-")]
    patches = sorted(glob.glob(os.path.join(VERIF, "mutants", "*.patch")))
    if only:
        patches = [p for p in patches if any(o in os.path.basename(p) for o in only)]
    results = []
    bad = 0
    for p in patches:
        meta = _header(p)
        prop, expect = meta.get("property"), meta.get("expect", "killed")
        name = os.path.basename(p)[:-6]
        d = None
        try:
            d = make_scratch(p)
            ok, tail = run_repo_tests(d)
            if not ok:
                results.append({"mutant": name, "property": prop, "expect": expect, "verdict": "invalid: repository tests fail", "tests": tail})
                print("%-45s INVALID (repository tests fail: %s)" % (name, tail))
                continue
            runs = int(os.environ.get("VERIF_MUTANT_RUNS", "0")) or None
            from .launcher import TIERS

            rc, out, wall = run_check_on(d, prop, runs or TIERS[prop]["quick"][0])
            sigs = [l.strip() for l in out.splitlines() if l.strip().startswith("violation ")]
            killed = rc == 1 and "VIOLATION property=%s" % prop in out
            verdict = "killed" if killed else ("survived" if rc == 0 else "harness-error rc=%d" % rc)
            good = (verdict == "killed" and expect == "killed") or (verdict == "survived" and expect == "survives")
            if not good:
                bad += 1
            results.append({"mutant": name, "property": prop, "expect": expect, "verdict": verdict, "as_expected": good, "wall_s": round(wall, 1), "tests": tail, "signatures": sigs[:12], "desc": meta.get("desc")})
            print("%-45s %-9s (expected %s) %.0fs %s" % (name, verdict.upper(), expect, wall, "; ".join(s.split(":")[0].replace("violation ", "") for s in sigs[:4])))
            if rc not in (0, 1):
                print(out[-1500:])
        except HarnessError as e:
            bad += 1
            results.append({"mutant": name, "property": prop, "verdict": "harness-error", "error": str(e)})
            print("%-45s HARNESS-ERROR %s" % (name, e))
        finally:
            if d:
                shutil.rmtree(d, ignore_errors=True)
        sys.stdout.flush()
    out = os.path.join(VERIF, "mutants", "RESULTS.json")
    if not only:
        with open(out, "w") as f:
            json.dump({"results": results, "not_as_expected": bad}, f, indent=1, sort_keys=True)
    killed = sum(1 for r in results if r.get("verdict") == "killed")
    print("mutants: %d run, %d killed, %d not as expected" % (len(results), killed, bad))
    return 0 if bad == 0 else 1


# ------------------------------------------------------------------ stored replays


def replays(argv):
    """Every replay file kept under findings/ is a minimised history that violated
    its property on the pinned tree and was repaired: replaying it on the current
    tree must NOT reproduce (a `fixed` entry suppresses nothing - if the defect
    ever returns the ordinary check reports it again, and this self-test says so
    directly)."""
    from .launcher import replay

    rc = 0
    # regressions/: histories on which an earlier version of a check raised a false
    # alarm; they must stay quiet on the current tree as well
    files = sorted(glob.glob(os.path.join(VERIF, "findings", "*.json"))) + sorted(glob.glob(os.path.join(VERIF, "regressions", "*.json")))
    for f in files:
        with open(f) as fh:
            prop = json.load(fh)["property"]
        r = replay(prop, f)
        print("%s: %s" % (os.path.basename(f), "REPRODUCES (the repaired defect is back)" if r else "does not reproduce on the current tree"))
        if r:
            rc = 1
    print("stored finding replays: %d, reproducing: %s" % (len(files), "some" if rc else "none"))
    return rc
