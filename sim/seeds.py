"""Seed derivation: one integer (VERIF_SEED) decides everything (DESIGN A.1)."""
import os

M64 = (1 << 64) - 1


def splitmix64(x):
    x = (x + 0x9E3779B97F4A7C15) & M64
    z = x
    z = ((z ^ (z >> 30)) * 0xBF58476D1CE4E5B9) & M64
    z = ((z ^ (z >> 27)) * 0x94D049BB133111EB) & M64
    return z ^ (z >> 31)


def key(seed, *parts):
    """fold splitmix64 over seed and the utf-8 bytes of every part"""
    h = splitmix64(seed & M64)
    for part in parts:
        for b in str(part).encode("utf-8") + b"\x00":
            h = splitmix64(h ^ b)
    return h


def verif_seed():
    try:
        return int(os.environ.get("VERIF_SEED", "0"))
    except ValueError:
        return 0


def run_seed(seed, prop, k):
    return key(seed, prop, "run", k)


def hash_seed(seed, prop, w):
    """PYTHONHASHSEED of worker w: 1..2^32-1 (0 would switch randomisation off)"""
    return 1 + key(seed, prop, "hs", w) % ((1 << 32) - 1)
