"""Reach probes: which anchored mechanisms actually executed, and in which
state (DESIGN 3.6). One small traced worker per check run uses sys.settrace;
local line tracing is switched on only for code objects that contain a site,
so the overhead stays bounded."""
import os
import re
import sys

from .libenv import lib, repo_root

# property -> (regex selecting site lines, function names whose calls are counted)
SITES = {
    "C07": (
        r"\.move\(|self\.(line|plane|center_point|points|point_set|segment_set|pyramid_set|convex_polygons)\s*=",
        ("move", "__contains__", "in_", "__eq__", "__hash__", "length", "area", "volume"),
    ),
    "C19": (
        r"get_eps\(\)|get_sig_figures\(\)|SIG_FIGURES|FLOAT_EPS|null\(",
        ("set_eps", "set_sig_figures", "get_eps", "get_sig_figures", "__hash__", "__eq__", "__contains__", "null"),
    ),
    "C20": (
        r"deepcopy\(|\.pv\(\)|self\.(points|convex_polygons|start_point|end_point|point|vector|sv|dv)\s*=",
        ("__init__", "__deepcopy__", "move", "__setitem__"),
    ),
}


class Tracer(object):
    def __init__(self, prop):
        G = lib()
        self.G = G
        self.root = os.path.join(repo_root(), "Geometry3D") + os.sep
        rx, funcs = SITES[prop]
        self.rx = re.compile(rx)
        self.funcs = set(funcs)
        self.site_lines = {}  # file -> {lineno: text}
        for dp, dn, fns in os.walk(self.root):
            if "visualization" in dp or "__pycache__" in dp:
                continue
            for fn in fns:
                if not fn.endswith(".py") or fn in ("constant.py", "logger.py"):
                    continue
                p = os.path.join(dp, fn)
                with open(p) as f:
                    for i, line in enumerate(f, 1):
                        s = line.strip()
                        if s.startswith("#") or s.startswith("from ") or s.startswith("import "):
                            continue
                        if self.rx.search(line):
                            self.site_lines.setdefault(p, {})[i] = s[:100]
        self.hits = {}
        self.hits_nd = {}
        self.calls = {}
        self.calls_nd = {}
        self._code = {}
        from Geometry3D.utils import constant

        self.constant = constant

    def nondefault(self):
        c = self.constant
        return c.FLOAT_EPS != 1e-10 or c.SIG_FIGURES != 10

    def _global(self, frame, event, arg):
        co = frame.f_code
        info = self._code.get(co)
        if info is None:
            fn = co.co_filename
            if not fn.startswith(self.root):
                info = (False, None, None)
            else:
                sites = self.site_lines.get(fn)
                has = False
                if sites:
                    try:
                        lines = set(l for _, _, l in co.co_lines() if l is not None)
                    except AttributeError:
                        lines = set(range(co.co_firstlineno, co.co_firstlineno + 400))
                    has = bool(lines & set(sites))
                rel = os.path.relpath(fn, self.root)
                qual = getattr(co, "co_qualname", co.co_name)
                info = (has, rel, qual if co.co_name in self.funcs else None)
            self._code[co] = info
        has, rel, qual = info
        if qual is not None:
            key = "%s:%s" % (rel, qual)
            self.calls[key] = self.calls.get(key, 0) + 1
            if self.nondefault():
                self.calls_nd[key] = self.calls_nd.get(key, 0) + 1
        return self._local if has else None

    def _local(self, frame, event, arg):
        if event == "line":
            sites = self.site_lines.get(frame.f_code.co_filename)
            ln = frame.f_lineno
            if sites and ln in sites:
                key = (frame.f_code.co_filename, ln)
                self.hits[key] = self.hits.get(key, 0) + 1
                if self.nondefault():
                    self.hits_nd[key] = self.hits_nd.get(key, 0) + 1
        return self._local

    def start(self):
        sys.settrace(self._global)

    def stop(self):
        sys.settrace(None)

    def report(self):
        sites = {}
        unreached = []
        for fn, lines in sorted(self.site_lines.items()):
            rel = os.path.relpath(fn, self.root)
            for ln, text in sorted(lines.items()):
                h = self.hits.get((fn, ln), 0)
                key = "%s:%d" % (rel, ln)
                if h:
                    sites[key] = {"hits": h, "hits_nondefault_config": self.hits_nd.get((fn, ln), 0), "text": text}
                else:
                    unreached.append(key + "  " + text)
        return {
            "sites_total": sum(len(v) for v in self.site_lines.values()),
            "sites_reached": len(sites),
            "sites": sites,
            "unreached_sites": unreached,
            "function_calls": dict(sorted(self.calls.items())),
            "function_calls_nondefault_config": dict(sorted(self.calls_nd.items())),
        }
