"""ddmin over explicit op lists + argument simplification (DESIGN A.8).

Runs inside one fresh interpreter (same PYTHONHASHSEED as the failing run);
`execute` is a pure function of the history, so candidates can be evaluated
in-process. The launcher replays the final result in yet another fresh
process before anything is reported.
"""
import copy
import time


def _interesting(machine, hist, sig):
    try:
        r = machine.execute(hist)
    except Exception:  # a candidate that breaks the harness is not interesting
        return None
    for v in r["violations"]:
        if v["sig"] == sig:
            return r
    return None


def shrink(machine, history, sig, budget_s=20.0):
    t_end = time.time() + budget_s
    best = copy.deepcopy(history)
    best_r = _interesting(machine, best, sig)
    if best_r is None:
        return history, None, {"shrunk": False, "reason": "not reproducible in shrink process"}
    tried = 0
    changed = True
    while changed and time.time() < t_end:
        changed = False
        # 1. ddmin on the op list
        n = 2
        ops = best["ops"]
        while len(ops) >= 2 and time.time() < t_end:
            chunk = max(1, len(ops) // n)
            reduced = False
            for start in range(0, len(ops), chunk):
                cand_ops = ops[:start] + ops[start + chunk:]
                if not cand_ops:
                    continue
                cand = dict(best)
                cand["ops"] = cand_ops
                tried += 1
                r = _interesting(machine, cand, sig)
                if r is not None and _interesting(machine, cand, sig) is not None:
                    best, best_r, ops = cand, r, cand_ops
                    n = max(n - 1, 2)
                    reduced = changed = True
                    break
                if time.time() >= t_end:
                    break
            if not reduced:
                if chunk == 1:
                    break
                n = min(len(ops), n * 2)
        # 2. argument simplification
        progress = True
        while progress and time.time() < t_end:
            progress = False
            for cand in machine.simplify_candidates(best):
                tried += 1
                r = _interesting(machine, cand, sig)
                if r is not None and _interesting(machine, cand, sig) is not None:
                    best, best_r = cand, r
                    progress = changed = True
                    break
                if time.time() >= t_end:
                    break
    return best, best_r, {"shrunk": True, "candidates_tried": tried, "ops_before": len(history["ops"]), "ops_after": len(best["ops"])}
