#!/venv/bin/python
"""Run the repository tests and one quick check against a scratch copy of /repo
with a patch applied (git-style or plain -p1 diff).

usage: seedcheck.py <patch> <property> [runs]
The scratch copy lives under /var/tmp and is removed afterwards.
"""
import os
import shutil
import sys

sys.path.insert(0, os.path.dirname(os.path.dirname(os.path.abspath(__file__))))
from sim import selftest  # noqa: E402


def main():
    patch, prop = sys.argv[1], sys.argv[2]
    runs = int(sys.argv[3]) if len(sys.argv) > 3 and sys.argv[3] else None
    d = selftest.make_scratch(os.path.abspath(patch))
    try:
        ok, tail = selftest.run_repo_tests(d)
        print("repository tests with the patch: %s (%s)" % ("pass" if ok else "FAIL", tail))
        from sim.launcher import TIERS

        rc, out, wall = selftest.run_check_on(d, prop, runs or TIERS[prop]["quick"][0])
        print(out[-3000:])
        print("check %s exit=%d wall=%.0fs" % (prop, rc, wall))
        rd = os.path.join(d, "_replays", prop)
        if os.path.isdir(rd) and len(sys.argv) > 4:
            os.makedirs(sys.argv[4], exist_ok=True)
            for fn in sorted(os.listdir(rd))[:3]:
                shutil.copy(os.path.join(rd, fn), sys.argv[4])
        return rc
    finally:
        shutil.rmtree(d, ignore_errors=True)


if __name__ == "__main__":
    sys.exit(main())
