#!/venv/bin/python
"""Create /verif/mutants/<name>.patch from exact string replacements.

usage: mkmutant.py <name> <property> <expect: killed|survives> <description> (<relpath> <old> <new>)...
The patch is made against the current /repo working tree in a scratch copy
under /var/tmp (removed afterwards); /repo itself is never touched.
"""
import os
import shutil
import subprocess
import sys
import tempfile


def main():
    name, prop, expect, desc = sys.argv[1:5]
    edits = sys.argv[5:]
    assert len(edits) % 3 == 0 and edits
    tmp = tempfile.mkdtemp(prefix="verif-mk-", dir="/var/tmp")
    try:
        a, b = os.path.join(tmp, "a"), os.path.join(tmp, "b")
        for d in (a, b):
            shutil.copytree("/repo/Geometry3D", os.path.join(d, "Geometry3D"), ignore=shutil.ignore_patterns("__pycache__"))
        for i in range(0, len(edits), 3):
            rel, old, new = edits[i : i + 3]
            p = os.path.join(b, "Geometry3D", rel)
            s = open(p).read()
            if old.startswith("ALL:"):
                old = old[4:]
                if s.count(old) < 1:
                    raise SystemExit("%s: no occurrence of %r in %s" % (name, old, rel))
            elif s.count(old) != 1:
                raise SystemExit("%s: %d occurrences of %r in %s" % (name, s.count(old), old, rel))
            open(p, "w").write(s.replace(old, new))
        diff = subprocess.run(["diff", "-ruN", "a", "b"], cwd=tmp, capture_output=True, text=True).stdout
        assert diff.strip(), "empty diff"
        diff = "\n".join(l.split("\t")[0] if l.startswith(("--- ", "+++ ")) else l for l in diff.split("\n"))
        out = os.path.join(os.path.dirname(os.path.dirname(os.path.abspath(__file__))), "mutants", name + ".patch")
        os.makedirs(os.path.dirname(out), exist_ok=True)
        with open(out, "w") as f:
            f.write("# property: %s\n# expect: %s\n# %s\n" % (prop, expect, desc))
            f.write(diff)
        print("wrote", out)
    finally:
        shutil.rmtree(tmp, ignore_errors=True)


if __name__ == "__main__":
    main()
