#!/venv/bin/python
"""Confirm one independently seeded defect against /repo itself and file it under /verif/seeded/.

usage: confirm_seed.py <src dir with patch.diff, demo.py, notes.md> <property> <dest name> <what> <needs>

Steps (as the brief prescribes): git -C /repo apply <patch>; repository tests;
the registered quick command; git -C /repo checkout -- . (always, even on error).
Nothing is ever committed in /repo.

With CONFIRM_SCRATCH=1 the same steps run against a scratch copy of /repo's
working tree under /var/tmp (patch -p1, VERIF_REPO=<copy>, removed afterwards)
instead of /repo itself - for use while a background soak (`vp run`) is reading
/repo; the demo is then also run here, before and after the patch.
"""
import glob
import json
import os
import re
import shutil
import subprocess
import sys

VERIF = os.path.dirname(os.path.dirname(os.path.abspath(__file__)))


def sh(cmd, **kw):
    return subprocess.run(cmd, shell=True, capture_output=True, text=True, **kw)


def scratch_main():
    sys.path.insert(0, VERIF)
    from sim import selftest
    from sim.launcher import TIERS

    src, prop, name, what, needs = sys.argv[1:6]
    patch = os.path.abspath(os.path.join(src, "patch.diff"))
    demo = os.path.abspath(os.path.join(src, "demo.py"))
    dest = os.path.join(VERIF, "seeded", name)
    env = dict(os.environ, PYTHONDONTWRITEBYTECODE="1")

    def run_demo(d):
        r = subprocess.run(["timeout", "300", "/venv/bin/python", demo], cwd=d, env=dict(env, PYTHONPATH=d), capture_output=True, text=True)
        return r.returncode, (r.stdout + r.stderr).strip().splitlines()[-1:]

    clean = selftest.make_scratch()
    try:
        demo_clean = run_demo(clean)
    finally:
        shutil.rmtree(clean, ignore_errors=True)
    d = selftest.make_scratch(patch)
    try:
        ok, tests = selftest.run_repo_tests(d)
        demo_patched = run_demo(d)
        rc, log, wall = selftest.run_check_on(d, prop, TIERS[prop]["quick"][0])
        os.makedirs(dest, exist_ok=True)
        kept = []
        for rp in sorted(glob.glob(os.path.join(d, "_replays", prop, "*.json")))[:2]:
            shutil.copy(rp, dest)
            kept.append(os.path.basename(rp))
    finally:
        shutil.rmtree(d, ignore_errors=True)
    sigs = {}
    for m in re.finditer(r"violation (C\d+/\S+): (\d+) histories", log):
        sigs[m.group(1)] = int(m.group(2))
    for fn in ("patch.diff", "demo.py", "notes.md"):
        if os.path.exists(os.path.join(src, fn)):
            shutil.copy(os.path.join(src, fn), dest)
    meta = {
        "id": name.split("-")[0],
        "property": prop,
        "what": what,
        "needs_to_manifest": needs,
        "author": "independent sub-agent given only the property text and a scratch worktree of /repo; nothing from /verif",
        "confirmed": {
            "repository_tests_with_patch": ("pass: " if ok else "FAIL: ") + tests,
            "demo": "PYTHONPATH=<scratch copy> /venv/bin/python demo.py : exit %d on the clean copy (%s), exit %d with the patch (%s)" % (demo_clean[0], " ".join(demo_clean[1])[:120], demo_patched[0], " ".join(demo_patched[1])[:200]),
            "check_cmd": "./check %s quick (VERIF_SEED=%s, VERIF_REPO=<scratch copy of /repo's working tree with the patch applied>, because a background soak was reading /repo)" % (prop, os.environ.get("VERIF_SEED", "0")),
            "check_exit": rc,
            "violation_lines": len(re.findall(r"^VIOLATION ", log, re.M)),
            "signatures_histories": sigs,
            "replays_kept": kept,
        },
    }
    with open(os.path.join(dest, "meta.json"), "w") as f:
        json.dump(meta, f, indent=1)
    print("%s: tests [%s] demo clean=%d patched=%d; check exit=%d, %d VIOLATION lines, %d signatures: %s" % (name, tests, demo_clean[0], demo_patched[0], rc, meta["confirmed"]["violation_lines"], len(sigs), "; ".join(sorted(sigs)[:6])))
    return 0


def main():
    if os.environ.get("CONFIRM_SCRATCH"):
        return scratch_main()
    src, prop, name, what, needs = sys.argv[1:6]
    patch = os.path.join(src, "patch.diff")
    st = sh("git -C /repo status --porcelain").stdout.strip()
    if st:
        raise SystemExit("/repo is not clean: %s" % st)
    dest = os.path.join(VERIF, "seeded", name)
    os.makedirs(dest, exist_ok=True)
    tmp_ev, tmp_rp = os.path.join(src, "ev"), os.path.join(src, "replays_repo")
    shutil.rmtree(tmp_rp, ignore_errors=True)
    r = sh("git -C /repo apply %s" % patch)
    if r.returncode:
        raise SystemExit("patch does not apply: " + r.stderr)
    try:
        t = sh("cd /repo && /venv/bin/python -m pytest -q -p no:cacheprovider 2>&1 | tail -1")
        tests = t.stdout.strip()
        env = dict(os.environ, VERIF_EVIDENCE_DIR=tmp_ev, VERIF_REPLAY_DIR=tmp_rp)
        c = subprocess.run(["timeout", "1500", os.path.join(VERIF, "check"), prop, "quick"], cwd=VERIF, env=env, capture_output=True, text=True)
        log, rc = c.stdout, c.returncode
    finally:
        sh("git -C /repo checkout -- .")
    assert not sh("git -C /repo status --porcelain").stdout.strip(), "/repo not restored"
    sigs = {}
    for m in re.finditer(r"violation (C\d+/\S+): (\d+) histories", log):
        sigs[m.group(1)] = int(m.group(2))
    kept = []
    for rp in sorted(glob.glob(os.path.join(tmp_rp, prop, "*.json")))[:2]:
        shutil.copy(rp, dest)
        kept.append(os.path.basename(rp))
    for fn in ("patch.diff", "demo.py", "notes.md"):
        if os.path.exists(os.path.join(src, fn)):
            shutil.copy(os.path.join(src, fn), dest)
    meta = {
        "id": name.split("-")[0],
        "property": prop,
        "what": what,
        "needs_to_manifest": needs,
        "author": "independent sub-agent given only the property text and a scratch worktree of /repo; nothing from /verif",
        "confirmed": {
            "repository_tests_with_patch": tests,
            "demo": "cd <worktree> && /venv/bin/python demo.py : exit 1 with the patch, exit 0 without (run by me in the agent's worktree, git stash / stash pop)",
            "check_cmd": "./check %s quick (VERIF_SEED=%s, patch applied to /repo itself with git apply, undone with git checkout -- .)" % (prop, os.environ.get("VERIF_SEED", "0")),
            "check_exit": rc,
            "violation_lines": len(re.findall(r"^VIOLATION ", log, re.M)),
            "signatures_histories": sigs,
            "replays_kept": kept,
        },
    }
    with open(os.path.join(dest, "meta.json"), "w") as f:
        json.dump(meta, f, indent=1)
    print("%s: tests [%s] check exit=%d, %d VIOLATION lines, %d signatures" % (name, tests, rc, meta["confirmed"]["violation_lines"], len(sigs)))
    return 0


if __name__ == "__main__":
    sys.exit(main())
