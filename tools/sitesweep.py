#!/venv/bin/python
"""Per-site sensitivity sweep for C19: "every comparison in the library uses the
current values".

For every source line of Geometry3D (visualization and constant.py excluded) that
reads the live tolerance - get_eps() or get_sig_figures() - one scratch copy of
the repository is made (under /var/tmp, removed afterwards; /repo is never
touched) in which exactly that line reads the import-time default instead
(get_eps() -> 1e-10, get_sig_figures() -> 10: the "stale star-import" defect the
property's anchors describe, one site at a time).  The repository's own tests are
run against the copy (they must pass: they never change the configuration) and
then `./check C19 quick`, which must report a violation.

The same sweep exists for C20 ("composite objects own their data", "helpers that
translate points copy first"): with `c20` as first argument every
`copy.deepcopy(x)` in the library is replaced, one site at a time, by `x` itself
(the constructor or helper then keeps or moves the caller's object) and
`./check C20 quick` must report a violation wherever the repository's own tests
still pass.

usage: sitesweep.py [c19|c20] [runs] [substring filter on "file:line"]
Writes mutants/SITESWEEP.json / SITESWEEP-C20.json (only when unfiltered) and
prints one line per site.
"""
import json
import os
import re
import shutil
import sys

sys.path.insert(0, os.path.dirname(os.path.dirname(os.path.abspath(__file__))))
from sim import selftest  # noqa: E402
from sim.launcher import TIERS  # noqa: E402

VERIF = os.path.dirname(os.path.dirname(os.path.abspath(__file__)))
REPO = os.environ.get("VERIF_REPO", "/repo")
PATS = {"C19": re.compile(r"get_eps\(\)|get_sig_figures\(\)"), "C20": re.compile(r"copy\.deepcopy\((\w+)\)")}
PROP = "C20" if len(sys.argv) > 1 and sys.argv[1].lower() == "c20" else "C19"
if len(sys.argv) > 1 and sys.argv[1].lower() in ("c19", "c20"):
    del sys.argv[1]
PAT = PATS[PROP]


def mutate(line):
    if PROP == "C19":
        return line.replace("get_eps()", "1e-10").replace("get_sig_figures()", "10")
    return PAT.sub(lambda m: m.group(1), line)


def sites():
    out = []
    base = os.path.join(REPO, "Geometry3D")
    for root, _dirs, files in sorted(os.walk(base)):
        if "visualization" in root or "__pycache__" in root:
            continue
        for fn in sorted(files):
            if not fn.endswith(".py") or fn == "constant.py":
                continue
            p = os.path.join(root, fn)
            rel = os.path.relpath(p, REPO)
            for n, line in enumerate(open(p).read().split("\n"), 1):
                s = line.strip()
                if s.startswith("#") or s.startswith("from ") or s.startswith("import "):
                    continue
                if PAT.search(line):
                    out.append((rel, n, line))
    return out


def main():
    runs = int(sys.argv[1]) if len(sys.argv) > 1 and sys.argv[1].isdigit() else TIERS[PROP]["quick"][0]
    filt = [a for a in sys.argv[1:] if not a.isdigit()]
    results = []
    for rel, n, line in sites():
        key = "%s:%d" % (rel, n)
        if filt and not any(f in key for f in filt):
            continue
        d = selftest.make_scratch()
        try:
            p = os.path.join(d, rel)
            src = open(p).read().split("\n")
            assert src[n - 1] == line
            src[n - 1] = mutate(line)
            open(p, "w").write("\n".join(src))
            ok, tail = selftest.run_repo_tests(d)
            rc, out, wall = selftest.run_check_on(d, PROP, runs)
            sigs = [l.strip() for l in out.splitlines() if l.strip().startswith("violation ")]
            killed = rc == 1 and ("VIOLATION property=%s" % PROP) in out
            verdict = "killed" if killed else ("survived" if rc == 0 else "harness-error rc=%d" % rc)
            results.append({"site": key, "line": line.strip(), "repository_tests": "pass" if ok else "FAIL " + tail, "verdict": verdict, "wall_s": round(wall, 1), "signatures": [s.split(":")[0].replace("violation ", "") for s in sigs[:6]]})
            print("%-40s %-9s tests=%s %.0fs  %s | %s" % (key, verdict.upper(), "pass" if ok else "FAIL", wall, line.strip()[:60], "; ".join(results[-1]["signatures"][:3])))
            if rc not in (0, 1):
                print(out[-1500:])
        finally:
            shutil.rmtree(d, ignore_errors=True)
        sys.stdout.flush()
    killed = sum(1 for r in results if r["verdict"] == "killed")
    print("sites: %d, killed %d, survived %d" % (len(results), killed, sum(1 for r in results if r["verdict"] == "survived")))
    if not filt:
        with open(os.path.join(VERIF, "mutants", "SITESWEEP.json" if PROP == "C19" else "SITESWEEP-C20.json"), "w") as f:
            json.dump({"property": PROP, "runs_per_site": runs, "sites": results, "killed": killed}, f, indent=1, sort_keys=True)
    return 0


if __name__ == "__main__":
    sys.exit(main())
